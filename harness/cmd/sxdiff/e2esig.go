package main

// e2esigint (C12) and e2ejson (C14) — the real `sx` binary in the network namespace of netlab.go, observed at its
// process boundary: signals in, stdout / stderr / exit out.
//
//   e2esigint: one rate-limited scan per COMMAND FORM (`tcp`, `tcp syn|fin|null|xmas`, `tcp --flags …`, `udp`, `icmp`,
//            `arp`, `arp --live`, the same on a tun device, `socks`, `elastic`, `docker`) that would run for many
//            seconds; SIGINT after a drawn delay (also before the first probe); probes of the scans that report
//            replies are answered on the wire, so results are being printed when the signal arrives.  The process must
//            end within a generous bound, print no panic / fatal error text, and leave complete lines on stdout.
//            Only here does the signal context a cobra RunE creates meet the scan it is meant to stop.
//   e2ejson: `--json` runs of the commands whose replies can be put on the wire (arp, arp --live, tcp syn, tcp fin,
//            icmp): stdout, byte for byte, must be one faithful JSON object per reply, in reply order — for
//            `arp --live` (de-duplication on) one per host, at its first sighting, over several passes.

import (
	"net/http"
	"sort"
	"os/exec"
	"runtime"
	"path/filepath"
	"bytes"
	"encoding/binary"
	"encoding/json"
	"fmt"
	"net"
	"os"
	"strings"
	"sync"
	"syscall"
	"time"

	"sxverif/harness/internal/hx"
)

func init() {
	components["e2esigint"] = e2eSigintComponent
	components["e2ejson"] = e2eJSONComponent
}

// tcpReplyFlags: replyTo's SYN-ACK with another flag byte
func tcpReplyFlags(probe []byte, flags byte) []byte {
	f := replyTo("pkt-tcp", probe)
	f[47] = flags
	f[50], f[51] = 0, 0
	binary.BigEndian.PutUint16(f[50:52], tcpChecksum(f[26:30], f[30:34], f[34:54]))
	return f
}

type sigRun struct {
	form    []string // command words incl. form-specific options
	kind    string   // pkt-tcp pkt-udp pkt-icmp pkt-arp app
	tun     bool
	answer  bool // probes are answered on the wire
	args    []string
	delay   time.Duration // SIGINT this long after the start
	class   string
	obs     string
	probes  int
	listens []net.Listener
	stdin   []byte // with opt.stdinHold: a target list whose producer has not finished
	opt     sxOpt
	fifo    string // a named pipe given to -f, whose writer stays open
}

func e2eSigintComponent(r *hx.Run) {
	if !enterNetlab() {
		return
	}
	boundMs := int64(3000 * machineSlowness())
	r.Count(fmt.Sprintf("bound-ms:%d", boundMs))
	r.Rule = "case = one run of the real sx binary per command form (tcp, tcp syn/fin/null/xmas, tcp --flags, udp, icmp, arp, arp --live; tcp syn/udp/icmp on a tun device; socks, elastic, docker on loopback with listeners that accept and stay silent), rate-limited so that it would run for 10 s or more, --json on or off; SIGINT after a drawn delay (0-40 ms: around start-up; 150-1500 ms: in mid scan, before or after the logger's first flush, with results being printed for the forms whose probes are answered on the wire); observed = (ended by itself within 3 s + exit delay of the signal?, panic / fatal error / data race text on stderr?, stdout made of complete lines - JSON objects with --json?); non-trivial class = (command form, link, signal phase, json)"
	lab := newNetlab()
	defer lab.close()
	tun, err := newTun("tun0", "10.1.0.1/24")
	if err != nil {
		fmt.Fprintf(os.Stderr, "e2esigint: no tun device (%v)\n", err)
		os.Exit(4)
	}
	defer tun.close()
	time.Sleep(50 * time.Millisecond)
	dir := e2eWorkDir()
	defer os.RemoveAll(dir)
	rng := r.Rng

	var all []uint32
	for i := uint32(2); i < 254; i++ {
		all = append(all, labNet|i)
	}
	cacheFile := writeArpCache(dir, all)

	type form struct {
		words  []string
		kind   string
		tun    bool
		answer bool
	}
	forms := []form{
		{[]string{"tcp"}, "pkt-tcp", false, true},
		{[]string{"tcp", "syn"}, "pkt-tcp", false, true},
		{[]string{"tcp", "fin"}, "pkt-tcp", false, true},
		{[]string{"tcp", "null"}, "pkt-tcp", false, true},
		{[]string{"tcp", "xmas"}, "pkt-tcp", false, true},
		{[]string{"tcp", "--flags", "ack,psh"}, "pkt-tcp", false, true},
		{[]string{"udp"}, "pkt-udp", false, false},
		{[]string{"icmp"}, "pkt-icmp", false, true},
		{[]string{"arp"}, "pkt-arp", false, true},
		{[]string{"arp", "--live", "250ms"}, "pkt-arp", false, true},
		{[]string{"tcp", "syn"}, "pkt-tcp", true, false},
		{[]string{"udp"}, "pkt-udp", true, false},
		{[]string{"icmp"}, "pkt-icmp", true, false},
		{[]string{"socks"}, "app", false, false},
		{[]string{"elastic"}, "app", false, false},
		{[]string{"docker"}, "app", false, false},
	}
	rounds := 1
	if r.Tier == "thorough" {
		rounds = 8
	}
	var runs []*sigRun
	for it := 0; it < rounds; it++ {
		for fi, f := range forms {
			s := &sigRun{form: f.words, kind: f.kind, tun: f.tun, answer: f.answer}
			args := append([]string{}, f.words...)
			asJSON := rng.Intn(3) > 0
			if asJSON {
				args = append(args, "--json")
			}
			if rng.Intn(2) == 0 {
				args = append(args, "--exit-delay", []string{"50ms", "1s", "10s"}[rng.Intn(3)])
			}
			// one probe every 10-25 ms: hundreds of probes to go when the signal arrives; or a rate so slow that the
			// sender sits in the limiter for a minute or an hour when the signal arrives
			slow := (it+fi)%3 == 1
			if slow {
				args = append(args, "--rate", []string{"1/m", "10/h", "2/30s", "1/90s"}[rng.Intn(4)])
			} else {
				args = append(args, "--rate", fmt.Sprintf("%d/s", 40+rng.Intn(60)))
			}
			early := (it+fi)%4 == 3
			if early {
				s.delay = time.Duration(rng.Intn(40)) * time.Millisecond
			} else {
				s.delay = time.Duration(150+rng.Intn(1350)) * time.Millisecond
			}
			switch {
			case f.kind == "app":
				// a /24 of loopback addresses x 3 ports; a few listeners that accept and say nothing
				base := uint32(127<<24) | uint32(1+rng.Intn(200))<<16 | uint32(fi)<<8
				p0 := 20000 + rng.Intn(20000)
				for i := 0; i < 6; i++ {
					if l, err := net.Listen("tcp4", fmt.Sprintf("%s:%d", v4Text(base|uint32(rng.Intn(256))), p0+rng.Intn(3))); err == nil {
						s.listens = append(s.listens, l)
						go func(l net.Listener) {
							for {
								c, err := l.Accept()
								if err != nil {
									return
								}
								go func() { time.Sleep(5 * time.Second); c.Close() }()
							}
						}(l)
					}
				}
				args = append(args, "-p", fmt.Sprintf("%d-%d", p0, p0+2), "-w", fmt.Sprint(1+rng.Intn(8)), "-t", "2s", v4Text(base)+"/24")
			case f.tun:
				if f.kind != "pkt-icmp" {
					args = append(args, "-p", fmt.Sprintf("%d-%d", 1000+fi, 1002+fi))
				}
				args = append(args, "10.1.0.0/24")
			default:
				if f.kind == "pkt-tcp" || f.kind == "pkt-udp" {
					args = append(args, "-p", fmt.Sprintf("%d-%d", 1000+10*fi, 1002+10*fi))
				}
				if f.kind != "pkt-arp" {
					args = append(args, "-a", cacheFile)
				}
				args = append(args, "10.0.0.0/24")
			}
			// the target list comes from a producer that has not finished when the signal arrives: `-f -` on a pipe
			// that stays open, or a named pipe (the addresses given so far are scanned, the scan can be stopped)
			listMode := ""
			if (it+fi)%4 == 1 && f.kind != "pkt-arp" && f.kind != "pkt-icmp" {
				// replace the positional target by a list
				tgt := args[len(args)-1]
				args = args[:len(args)-1]
				var sb strings.Builder
				hostBase := "10.0.0."
				if f.tun {
					hostBase = "10.1.0."
				}
				if f.kind == "app" {
					hostBase = strings.TrimSuffix(strings.TrimSuffix(tgt, "/24"), "0")
				}
				for h := 2; h < 120; h++ {
					fmt.Fprintf(&sb, "{\"ip\":\"%s%d\"}\n", hostBase, h)
				}
				if ((it+fi)/4)%2 == 0 {
					listMode = "/stdin-open"
					s.stdin, s.opt.stdinHold = []byte(sb.String()), true
					args = append(args, "-f", "-")
					if f.kind != "app" && !f.tun {
						// the ARP cache cannot come from stdin as well: it is a file already (-a)
					}
				} else {
					listMode = "/fifo-open"
					s.fifo = filepath.Join(dir, fmt.Sprintf("list-%d-%d.fifo", it, fi))
					syscall.Mkfifo(s.fifo, 0o600)
					s.stdin = []byte(sb.String())
					args = append(args, "-f", s.fifo)
				}
				if f.tun {
					args = append(args, "-i", "tun0")
				}
			}
			s.args = args
			link := "eth"
			if f.tun {
				link = "tun"
			}
			if f.kind == "app" {
				link = "lo"
			}
			s.class = strings.Join(f.words, " ") + "/" + link + "/" + map[bool]string{true: "early", false: "mid"}[early] + "/" + map[bool]string{true: "json", false: "text"}[asJSON] + map[bool]string{true: "/slowrate", false: ""}[slow] + listMode
			runs = append(runs, s)
		}
	}

	// docker daemons that answer /_ping and /info and then say nothing on /version: the probe's last, best-effort
	// request is the one in flight when the signal arrives; a cancelled scan does not wait for it (`-t 30s`)
	nStall := 2
	if r.Tier == "thorough" {
		nStall = 6
	}
	for i := 0; i < nStall; i++ {
		s := &sigRun{form: []string{"docker"}, kind: "app"}
		base := uint32(127<<24) | uint32(201+rng.Intn(40))<<16 | uint32(i)<<8
		port := 20000 + rng.Intn(20000)
		for h := 1; h <= 6; h++ {
			l, err := net.Listen("tcp4", fmt.Sprintf("%s:%d", v4Text(base|uint32(h)), port))
			if err != nil {
				continue
			}
			s.listens = append(s.listens, l)
			srv := &http.Server{Handler: http.HandlerFunc(func(w http.ResponseWriter, q *http.Request) {
				switch {
				case strings.HasSuffix(q.URL.Path, "/_ping"):
					w.Header().Set("API-Version", "1.41")
					w.Write([]byte("OK"))
				case strings.HasSuffix(q.URL.Path, "/info"):
					w.Header().Set("Content-Type", "application/json")
					w.Write([]byte(`{"ID":"stall","Name":"stall"}`))
				default: // /version: silence
					select {
					case <-q.Context().Done():
					case <-time.After(40 * time.Second):
					}
				}
			})}
			go srv.Serve(l)
		}
		s.args = []string{"docker", "--json", "-p", fmt.Sprint(port), "-w", fmt.Sprint(2 + rng.Intn(6)), "-t", "30s", v4Text(base) + "/29"}
		s.delay = time.Duration(500+rng.Intn(500)) * time.Millisecond
		s.class = "docker/lo/mid/json/version-stalls"
		runs = append(runs, s)
	}

	// a responder: every probe of the answering forms gets its reply (SYN -> SYN-ACK, other TCP -> RST, echo -> echo
	// reply, ARP request -> reply); ports tell the concurrently running tcp forms apart, so nothing else is needed
	stopResp := make(chan struct{})
	var respWG sync.WaitGroup
	respWG.Add(1)
	go func() {
		defer respWG.Done()
		from := 0
		for {
			select {
			case <-stopResp:
				return
			default:
			}
			fs := lab.since(from)
			from += len(fs)
			if from > 200000 { // keep the capture small
				lab.take()
				from = 0
			}
			for _, b := range fs {
				if len(b) < 42 || !bytes.Equal(b[6:12], lab.srcMAC) {
					continue
				}
				switch et := binary.BigEndian.Uint16(b[12:14]); {
				case et == 0x0806 && b[21] == 1:
					if t := binary.BigEndian.Uint32(b[38:42]); t != labNet|254 && t != labNet|1 {
						lab.inject(replyTo("pkt-arp", b))
					}
				case et == 0x0800 && b[23] == 6 && len(b) >= 54:
					if b[47] == 0x02 {
						lab.inject(replyTo("pkt-tcp", b))
					} else if b[47]&0x04 == 0 { // not the kernel's own RSTs
						lab.inject(tcpReplyFlags(b, 0x14))
					}
				case et == 0x0800 && b[23] == 1 && b[34] == 8:
					lab.inject(replyTo("pkt-icmp", b))
				}
			}
			time.Sleep(time.Millisecond)
		}
	}()

	// as many runs side by side as the machine has room for (every sx starts NumCPU packet workers)
	par := runtime.NumCPU() / 2
	if par > 8 {
		par = 8
	}
	if par < 1 {
		par = 1
	}
	for i := 0; i < len(runs); i += par {
		end := i + par
		if end > len(runs) {
			end = len(runs)
		}
		var wg sync.WaitGroup
		for _, s := range runs[i:end] {
			wg.Add(1)
			go func(s *sigRun) {
				defer wg.Done()
				s.obs = sigintRun(s, boundMs)
				for _, l := range s.listens {
					l.Close()
				}
			}(s)
		}
		wg.Wait()
		tun.take()
	}
	close(stopResp)
	respWG.Wait()
	for _, s := range runs {
		r.Count("form:" + strings.Join(s.form, " "))
		r.Case(s.class, "e2esigint", cmdText(s.args), fmt.Sprint(s.delay.Milliseconds()), fmt.Sprint(boundMs+exitDelayOf(s.args)), s.obs)
	}
}

// exitDelayOf: the --exit-delay of a command line in ms (the default if absent).  After Ctrl-C no delay is owed at
// all: the bound is generous by that much.
// machineSlowness: how much slower than an idle development machine process start-up is right now (1 … 3): the
// median wall time of three `sx --help` runs against 25 ms.  The time bound of e2esigint is "generous": it scales
// with this, so that a loaded or small machine does not turn scheduling latency into an alarm, while the hangs the
// bound is there for (a limiter slot of 15 s … 6 min, a read that never returns) stay far beyond it.
func machineSlowness() float64 {
	bin := os.Getenv("SX_BIN")
	if bin == "" {
		return 1
	}
	var ds []time.Duration
	for i := 0; i < 3; i++ {
		t0 := time.Now()
		exec.Command(bin, "--help").Run()
		ds = append(ds, time.Since(t0))
	}
	sort.Slice(ds, func(i, j int) bool { return ds[i] < ds[j] })
	f := float64(ds[1]) / float64(25*time.Millisecond)
	if f < 1 {
		f = 1
	}
	if f > 3 {
		f = 3
	}
	return f
}

func exitDelayOf(args []string) int64 {
	for i, a := range args {
		if a == "--exit-delay" && i+1 < len(args) {
			if d, err := time.ParseDuration(args[i+1]); err == nil {
				return d.Milliseconds()
			}
		}
	}
	return 300
}

// sigintRun starts the scan, sends SIGINT after s.delay and waits for the end of the process (killing it at the
// bound).  obs = "ended=E;panic=P;lines=L;running=R|ms=<signal to exit>;exit=<code>;out=<bytes of stdout>"
// (running = the scan was still under way when the signal was sent: every run is sized to last 2.5 s or more)
func sigintRun(s *sigRun, boundMs int64) string {
	var fifoW *os.File
	if s.fifo != "" {
		// the producer of the named pipe: writes what it has and keeps its end open
		go func() {
			if w, err := os.OpenFile(s.fifo, os.O_WRONLY, 0); err == nil {
				fifoW = w
				w.Write(s.stdin)
			}
		}()
	}
	stdin := s.stdin
	if s.fifo != "" {
		stdin = nil
	}
	p, err := startSXOpt(s.opt, false, stdin, s.args...)
	if err != nil {
		return "ended=0;panic=0;lines=none;running=0|start=" + hx.HexS(err.Error())
	}
	defer func() {
		if s.fifo != "" {
			// unblock a producer that never got a reader, then close
			if r, err := os.OpenFile(s.fifo, os.O_RDONLY|syscall.O_NONBLOCK, 0); err == nil {
				time.Sleep(10 * time.Millisecond)
				r.Close()
			}
			if fifoW != nil {
				fifoW.Close()
			}
		}
	}()
	// a signal sent between fork and exec is taken by the forked copy of the harness, not by sx: the delay counts from
	// the moment the process IS sx (on a loaded machine the exec can be tens of milliseconds away)
	// … and not the taskset / sh that execs it (one-CPU and ulimit runs)
	self, _ := os.Readlink("/proc/self/exe")
	for t0 := time.Now(); time.Since(t0) < 3*time.Second; time.Sleep(200 * time.Microsecond) {
		exe, err := os.Readlink(fmt.Sprintf("/proc/%d/exe", p.cmd.Process.Pid))
		if err != nil {
			break
		}
		if b := filepath.Base(exe); exe != self && b != "taskset" && b != "sh" && b != "dash" && b != "bash" {
			break
		}
	}
	time.Sleep(s.delay)
	early := p.exited()
	t0 := time.Now()
	p.signal(syscall.SIGINT)
	res := p.wait(time.Duration(boundMs+exitDelayOf(s.args))*time.Millisecond + time.Second)
	ms := time.Since(t0).Milliseconds()
	ended := 1
	if res.timedOut {
		ended = 0
	}
	panicked := 0
	for _, w := range []string{"panic:", "fatal error:", "goroutine ", "DATA RACE", "SIGSEGV"} {
		if strings.Contains(res.stderr, w) {
			panicked = 1
		}
	}
	lines := "ok"
	jsonMode := false
	for _, a := range s.args {
		if a == "--json" {
			jsonMode = true
		}
	}
	if res.stdout != "" && !strings.HasSuffix(res.stdout, "\n") {
		lines = "partial"
	} else if jsonMode {
		for _, l := range strings.Split(strings.TrimSuffix(res.stdout, "\n"), "\n") {
			if res.stdout != "" && !isJSONObject(l) {
				lines = "badjson"
			}
		}
	}
	note, running := "", 1
	if early { // ended by itself: an error at start-up, or a scan that was over far too soon
		running = 0
		note = ";err=" + hx.HexS(lastLine(res.stderr))
	}
	return fmt.Sprintf("ended=%d;panic=%d;lines=%s;running=%d|ms=%d;exit=%d;out=%d%s", ended, panicked, lines, running, ms, res.exit, len(res.stdout), note)
}

func isJSONObject(l string) bool {
	l = strings.TrimSpace(l)
	if !strings.HasPrefix(l, "{") || !strings.HasSuffix(l, "}") {
		return false
	}
	var m map[string]interface{}
	return json.Unmarshal([]byte(l), &m) == nil
}

// ---------------------------------------------------------------- e2ejson

func hexGo(s string) string { return hx.HexS(s) }

func e2eJSONComponent(r *hx.Run) {
	if !enterNetlab() {
		return
	}
	r.Rule = "case = one --json run of the real sx binary (arp, arp --live <d> over 3-5 passes ended by SIGINT, tcp syn, tcp fin, icmp) on the veth pair while chosen hosts / ports answer on the wire (in live mode at every pass); observed = stdout, byte for byte; Spec verdict = Spec.Json.holdsLog: exactly one faithful JSON object line per reply, in reply order (live mode: per host, at its first sighting); non-trivial class = (command, number of answers)"
	lab := newNetlab()
	defer lab.close()
	dir := e2eWorkDir()
	defer os.RemoveAll(dir)
	rng := r.Rng
	rounds := 1
	if r.Tier == "thorough" {
		rounds = 6
	}
	slot := 0
	for it := 0; it < rounds; it++ {
		for _, cmd := range []string{"arp", "arp-live", "arp-live", "tcpsyn", "tcpfin", "icmp"} {
			base := labNet | uint32(16+8*(slot%28))
			slot++
			var targets []uint32
			for i := uint32(0); i < 8; i++ {
				targets = append(targets, base+i)
			}
			answering := map[uint32]bool{}
			for _, i := range rng.Perm(8)[:2+rng.Intn(5)] {
				answering[base+uint32(i)] = true
			}
			port := 1 + rng.Intn(65000)
			var args []string
			live := time.Duration(0)
			switch cmd {
			case "arp":
				args = []string{"arp", "--json", "--exit-delay", "400ms"}
			case "arp-live":
				live = time.Duration(150+rng.Intn(200)) * time.Millisecond
				args = []string{"arp", "--json", "--live", live.String()}
				if rng.Intn(2) == 0 {
					args = []string{"arp", "--live", live.String(), "--json"}
				}
			case "tcpsyn":
				args = []string{"tcp", "syn", "--json", "--exit-delay", "400ms", "-p", fmt.Sprint(port), "-a", writeArpCache(dir, targets)}
			case "tcpfin":
				args = []string{"tcp", "fin", "--json", "--exit-delay", "400ms", "-p", fmt.Sprint(port), "-a", writeArpCache(dir, targets)}
			case "icmp":
				args = []string{"icmp", "--json", "--exit-delay", "400ms", "-a", writeArpCache(dir, targets)}
			}
			args = append(args, fmt.Sprintf("%s/29", v4Text(base)))
			lab.settle(30 * time.Millisecond)
			lab.take()
			p, err := startSX(false, nil, args...)
			if err != nil {
				panic(err)
			}
			// answer every probe of an answering host as it appears, one reply at a time (the order of the replies
			// is the order of the results)
			var results []string
			from := 0
			passes := 3 + rng.Intn(3)
			deadline := time.Now().Add(time.Duration(passes)*live + 200*time.Millisecond)
			for !p.exited() {
				if live > 0 && time.Now().After(deadline) {
					p.signal(syscall.SIGINT)
					live = 0
				}
				fs := lab.since(from)
				from += len(fs)
				for _, b := range fs {
					if len(b) < 42 || !bytes.Equal(b[6:12], lab.srcMAC) {
						continue
					}
					et := binary.BigEndian.Uint16(b[12:14])
					switch {
					case strings.HasPrefix(cmd, "arp") && et == 0x0806 && b[21] == 1:
						t := binary.BigEndian.Uint32(b[38:42])
						if !answering[t] || binary.BigEndian.Uint32(b[28:32]) != labNet|1 {
							continue
						}
						rep := replyTo("pkt-arp", b)
						mac := []byte{0x02, 0x42, byte(t >> 8), byte(t), byte(rng.Intn(256)), byte(rng.Intn(256))}
						copy(rep[6:12], mac)
						copy(rep[22:28], mac)
						if lab.inject(rep) == nil {
							results = append(results, fmt.Sprintf("arp:%s:%s:-", hexGo(v4Text(t)), hexGo(e2eMacText(macU64(mac)))))
						}
					case strings.HasPrefix(cmd, "tcp") && et == 0x0800 && b[23] == 6 && len(b) >= 54 && b[47]&0x04 == 0:
						t := binary.BigEndian.Uint32(b[30:34])
						if !answering[t] || int(binary.BigEndian.Uint16(b[36:38])) != port {
							continue
						}
						flags, scan, fl := byte(0x12), "tcpsyn", "-"
						if cmd == "tcpfin" {
							flags, scan, fl = 0x14, "tcpfin", hexGo("ar")
						}
						if lab.inject(tcpReplyFlags(b, flags)) == nil {
							results = append(results, fmt.Sprintf("tcp:%s:%s:%d:%s", hexGo(scan), hexGo(v4Text(t)), port, fl))
						}
					case cmd == "icmp" && et == 0x0800 && b[23] == 1 && b[34] == 8:
						t := binary.BigEndian.Uint32(b[30:34])
						if !answering[t] {
							continue
						}
						if lab.inject(replyTo("pkt-icmp", b)) == nil {
							results = append(results, fmt.Sprintf("icmp:%s:%s:61:0,0", hexGo("icmp"), hexGo(v4Text(t))))
						}
					default:
						continue
					}
					time.Sleep(2 * time.Millisecond)
				}
				time.Sleep(time.Millisecond)
			}
			res := p.wait(30 * time.Second)
			obs := hx.HexS(res.stdout)
			if res.timedOut || (res.exit != 0 && res.exit != -1) {
				obs = hx.HexS(fmt.Sprintf("FAIL exit=%d %s", res.exit, lastLine(res.stderr)))
			}
			uniq := "0"
			if strings.HasPrefix(cmd, "arp-live") {
				uniq = "1"
			}
			rs := "-"
			if len(results) > 0 {
				rs = strings.Join(results, "|")
			}
			r.Count("cmd:" + cmd)
			r.Case(fmt.Sprintf("%s/answers%d", cmd, len(answering)), "e2ejson", cmdText(args), uniq, rs, obs)
		}
	}
}
