package main

import (
	"context"
	"errors"
	"fmt"
	"io"
	"net"
	"os"
	"os/exec"
	"strconv"
	"strings"
	"sync"
	"syscall"
	"time"

	"github.com/google/gopacket"
	"github.com/google/gopacket/afpacket"
	"github.com/v-byte-cpu/sx/pkg/packet"
	"sxverif/harness/internal/hx"
)

func init() {
	components["recv"] = recvComponent
	replayers["recvpause"] = func(f []string) string { return runRecvPause(f[1]) }
	replayers["recv"] = func(f []string) string { return runRecv(f[1], f[2]) }
}

type timeoutErr struct{ timeout bool }

func (e *timeoutErr) Error() string   { return "i/o timeout-ish" }
func (e *timeoutErr) Timeout() bool   { return e.timeout }
func (e *timeoutErr) Temporary() bool { return false }

var _ net.Error = (*timeoutErr)(nil)

// the Go error VALUE behind each vocabulary symbol of Model/Recv.lean
func recvErr(sym byte) error {
	switch sym {
	case 'a':
		return syscall.EAGAIN
	case 'r':
		return syscall.ECONNRESET
	case 'o':
		return &net.OpError{Op: "read", Err: syscall.EAGAIN}
	case 's':
		return os.NewSyscallError("read", syscall.ECONNRESET)
	case 't':
		return &timeoutErr{true}
	case 'n':
		return &timeoutErr{false}
	case 'e':
		return io.EOF
	case 'u':
		return io.ErrUnexpectedEOF
	case 'g':
		return io.ErrNoProgress
	case 'c':
		return io.ErrClosedPipe
	case 'b':
		return io.ErrShortBuffer
	case 'd':
		return syscall.EBADF
	case 'f':
		return errors.New("read: use of closed file")
	case 'w':
		return fmt.Errorf("read: %w", io.EOF)
	case 'p':
		return afpacket.ErrPoll // what the AF_PACKET reader returns when poll(2) fails (interface flap)
	case 'x':
		return errors.New("boom")
	}
	panic("bad symbol " + string(sym))
}

type posErr struct {
	pos int
	err error
}

func (e *posErr) Error() string { return e.err.Error() }
func (e *posErr) Unwrap() error { return e.err }

type scriptReader struct {
	stamps   []time.Time // time of every ReadPacketData call
	syms     string
	cancelAt int
	cancel   context.CancelFunc
	calls    int // script outcomes handed out
	// reads answered after the scan was cancelled (the first one is the read that noticed it)
	afterCancel int
	mu          sync.Mutex
	errPos      map[error]int
}

func (s *scriptReader) ReadPacketData() ([]byte, *gopacket.CaptureInfo, error) {
	s.mu.Lock()
	defer s.mu.Unlock()
	s.stamps = append(s.stamps, time.Now())
	if s.cancelAt >= 0 && s.calls == s.cancelAt {
		// cancellation observed at the loop head before read `cancelAt`: cancel, hand out a no-op
		// (would-block) so that the loop comes round to its ctx check.  A socket that keeps saying "nothing there"
		// after that is normal; a receiver that keeps asking is not: after 2000 more reads the script ends it (EOF)
		s.cancel()
		s.afterCancel++
		if s.afterCancel > 2000 {
			return nil, nil, io.EOF
		}
		return nil, nil, syscall.EAGAIN
	}
	if s.calls >= len(s.syms) {
		return nil, nil, io.EOF // the caller closes the socket once the script is over
	}
	pos := s.calls
	s.calls++
	sym := s.syms[pos]
	if sym == 'F' || sym == 'P' {
		ci := &gopacket.CaptureInfo{CaptureLength: 3, Length: 3}
		switch pos % 4 {
		case 1: // cut by the capture length
			ci.Length = 1500
		case 2:
			ci = &gopacket.CaptureInfo{}
		case 3:
			ci.Length = 4
		}
		return []byte{byte(pos >> 8), byte(pos), sym}, ci, nil
	}
	if sym == 'x' && pos%3 == 1 && !noUnhashable {
		// an unknown failure whose VALUE is of a type that cannot be compared or hashed (a list of causes): a
		// classifier may compare it with its sentinels (`==` on different dynamic types is false) but must not key a map
		// with it.  It carries its position itself
		return nil, nil, errList{"boom", strconv.Itoa(pos)}
	}
	err := recvErr(sym)
	s.errPos[err] = pos
	return nil, nil, err
}

type errList []string

// noUnhashable is set when the canary of the component (below) has shown that an unknown failure of an unhashable type
// takes the receiver goroutine — and with it the process — down: the sweep then uses plain values for them
var noUnhashable bool

// runRecvIsolated runs one script in a child process of this binary (`sxdiff replay`): a panic in a goroutine of
// the code under test cannot be recovered here, but it can be survived there and reported with its input
func runRecvIsolated(syms, cancelS string) string {
	dir, err := os.MkdirTemp(os.Getenv("VERIF_WORK"), "recviso")
	if err != nil {
		return runRecv(syms, cancelS)
	}
	defer os.RemoveAll(dir)
	cf := dir + "/cases"
	cmd := exec.Command(os.Args[0], "replay", "-cases", cf)
	cmd.Stdin = strings.NewReader("recv\t" + syms + "\t" + cancelS + "\n")
	var eb strings.Builder
	cmd.Stderr = &eb
	if err := cmd.Run(); err != nil {
		msg := ""
		for _, l := range strings.Split(eb.String(), "\n") {
			if strings.HasPrefix(l, "panic:") || strings.HasPrefix(l, "fatal error:") {
				msg = l
				break
			}
		}
		return "PANIC " + strings.ReplaceAll(msg, "\t", " ")
	}
	b, _ := os.ReadFile(cf)
	f := strings.Split(strings.TrimRight(string(b), "\n"), "\t")
	return f[len(f)-1]
}

func (e errList) Error() string { return e[0] }

// deadlineCtx: a context that ends the way a context with a deadline does — Done is closed, Err is
// context.DeadlineExceeded (not context.Canceled).  "Cancellation ends reading" is about Done
type deadlineCtx struct {
	context.Context
	done chan struct{}
	once sync.Once
}

func (c *deadlineCtx) Done() <-chan struct{} { return c.done }
func (c *deadlineCtx) Err() error {
	select {
	case <-c.done:
		return context.DeadlineExceeded
	default:
		return nil
	}
}
func (c *deadlineCtx) end() { c.once.Do(func() { close(c.done) }) }

func (s *scriptReader) WritePacketData([]byte) error { return nil }

type noLimit struct{}

func (noLimit) Take() time.Time { return time.Time{} }

type scriptProc struct {
	mu        sync.Mutex
	processed []int
	errPos    map[error]int
}

func (p *scriptProc) ProcessPacketData(data []byte, _ *gopacket.CaptureInfo) error {
	p.mu.Lock()
	defer p.mu.Unlock()
	pos := int(data[0])<<8 | int(data[1])
	p.processed = append(p.processed, pos)
	if data[2] == 'P' {
		// a real processor fails the same way on the same kind of frame: every error carries the same text (and is
		// its own value — the position is recovered through its identity), so a receiver that tells errors apart by
		// their text, or remembers the last one, reports fewer than it should
		err := fmt.Errorf("process error: %s", "layer decode failed")
		p.errPos[err] = pos
		return err
	}
	return nil
}

// runRecvPause: the longest time the real receive loop stays away from the socket after a read error
// (time between the read that returned the error and the next read), over a script of isolated unknown
// errors each followed by good frames.  A reply that arrives during the exit delay is only read in time
// if this pause stays small (C16).
func runRecvPause(syms string) string {
	ctx, cancel := context.WithCancel(context.Background())
	defer cancel()
	errPos := map[error]int{}
	rd := &scriptReader{syms: syms, cancelAt: -1, cancel: cancel, errPos: errPos}
	pr := &scriptProc{errPos: errPos}
	errc := packet.NewReceiver(rd, pr).ReceivePackets(ctx)
	timeout := time.After(20 * time.Second)
loop:
	for {
		select {
		case _, ok := <-errc:
			if !ok {
				break loop
			}
		case <-timeout:
			return "TIMEOUT"
		}
	}
	rd.mu.Lock()
	defer rd.mu.Unlock()
	var max time.Duration
	for i := 0; i+1 < len(rd.stamps) && i < len(syms); i++ {
		if syms[i] != 'F' && syms[i] != 'P' {
			if d := rd.stamps[i+1].Sub(rd.stamps[i]); d > max {
				max = d
			}
		}
	}
	return fmt.Sprintf("maxpause_us=%d", max.Microseconds())
}

func runRecv(syms, cancelS string) string {
	if syms == "-" {
		syms = ""
	}
	cancelAt := -1
	if cancelS != "-" {
		cancelAt, _ = strconv.Atoi(cancelS)
	}
	ctx, cancel := context.WithCancel(context.Background())
	defer cancel()
	if cancelAt >= 0 && (len(syms)+cancelAt)%3 == 0 {
		// every third cancelled run ends like a context whose deadline has passed
		dc := &deadlineCtx{Context: context.Background(), done: make(chan struct{})}
		ctx, cancel = dc, dc.end
		defer dc.end()
	}
	errPos := map[error]int{}
	rd := &scriptReader{syms: syms, cancelAt: cancelAt, cancel: cancel, errPos: errPos}
	pr := &scriptProc{errPos: errPos}
	var src packet.Reader = rd
	if (len(syms)+cancelAt)%2 == 0 {
		// what the receiver reads from when --rate is given: reads must pass through unchanged, errors included
		src = packet.NewRateLimitReadWriter(rd, noLimit{})
	}
	errc := packet.NewReceiver(src, pr).ReceivePackets(ctx)
	var reported []string
	closed := 0
	timeout := time.After(60 * time.Second)
loop:
	for {
		select {
		case e, ok := <-errc:
			if !ok {
				closed = 1
				break loop
			}
			rd.mu.Lock()
			pr.mu.Lock()
			pos, known := 0, false
			if el, isList := e.(errList); isList {
				pos, _ = strconv.Atoi(el[1])
				known = true
			} else {
				pos, known = errPos[e]
			}
			pr.mu.Unlock()
			rd.mu.Unlock()
			if !known {
				reported = append(reported, "?")
			} else {
				reported = append(reported, strconv.Itoa(pos))
			}
		case <-timeout:
			break loop
		}
	}
	var procs []string
	pr.mu.Lock()
	for _, p := range pr.processed {
		procs = append(procs, strconv.Itoa(p))
	}
	pr.mu.Unlock()
	rd.mu.Lock()
	calls, after := rd.calls, rd.afterCancel
	rd.mu.Unlock()
	out := fmt.Sprintf("p=%s;r=%s;c=%d;closed=%d", strings.Join(procs, ","), strings.Join(reported, ","), calls, closed)
	if after > 2 {
		// the receiver went on reading after the cancellation it had been shown: "cancellation ends it" does not hold
		out += fmt.Sprintf(";reads-after-cancel=%d", after)
	}
	return out
}

const recvAlphabet = "FPartosnedugcbfwxp"

func recvComponent(r *hx.Run) {
	r.Rule = "case = (sequence over the 17-symbol outcome vocabulary, cancellation position or none); exhaustive up to a length bound, cancellation at every position for a sample, random long sequences incl. >100 reported errors; non-trivial class = (set of outcome classes present {frame, procErr, transient, unknown, broken}, cancelled?, ends-by)"
	type job struct{ syms, cancel string }
	// canary: unknown failures whose value is of an unhashable type (position 1 of each script), each in a child
	// process.  A receiver that dies of one is reported with the script; the sweep then goes on without that kind
	for _, syms := range []string{"FxF", "PxaF", "axFP"} {
		out := runRecvIsolated(syms, "-")
		if strings.HasPrefix(out, "PANIC") {
			noUnhashable = true
		}
		r.Count("canary")
		r.Case("unknown/unhashable", "recv", syms, "-", out)
	}
	var jobs []job
	maxLen := 3
	if r.Tier == "thorough" {
		maxLen = 5
	}
	// exhaustive short sequences (one representative per class keeps the space honest but small)
	reps := "FPatxewnf"
	var gen func(prefix string, depth int)
	gen = func(prefix string, depth int) {
		jobs = append(jobs, job{prefix, "-"})
		if depth == 0 {
			return
		}
		for i := 0; i < len(reps); i++ {
			gen(prefix+string(reps[i]), depth-1)
		}
	}
	gen("", maxLen)
	// every symbol alone and after/before a frame
	for i := 0; i < len(recvAlphabet); i++ {
		s := string(recvAlphabet[i])
		jobs = append(jobs, job{s, "-"}, job{"F" + s + "F", "-"}, job{"P" + s + "P" + s + "F", "-"})
	}
	// cancellation at every position of random sequences
	nCancel, nLong := 60, 40
	if r.Tier == "thorough" {
		nCancel, nLong = 1500, 1500
	}
	for i := 0; i < nCancel; i++ {
		n := 1 + r.Rng.Intn(7)
		var sb strings.Builder
		for j := 0; j < n; j++ {
			sb.WriteByte(recvAlphabet[r.Rng.Intn(len(recvAlphabet))])
		}
		for k := 0; k <= n+1; k++ {
			jobs = append(jobs, job{sb.String(), strconv.Itoa(k)})
		}
	}
	// long sequences without broken-socket symbols, biased to frames; some with > 100 reported errors
	live := "FFFFPPatosrnwxp"
	for i := 0; i < nLong; i++ {
		n := 20 + r.Rng.Intn(200)
		var sb strings.Builder
		for j := 0; j < n; j++ {
			sb.WriteByte(live[r.Rng.Intn(len(live))])
		}
		c := "-"
		if r.Rng.Intn(3) == 0 {
			c = strconv.Itoa(r.Rng.Intn(n))
		}
		jobs = append(jobs, job{sb.String(), c})
	}
	jobs = append(jobs, job{strings.Repeat("P", 250) + "e", "-"}, job{strings.Repeat("Px", 80), "100"})

	outs := make([]string, len(jobs))
	var wg sync.WaitGroup
	sem := make(chan struct{}, 32)
	for i := range jobs {
		wg.Add(1)
		sem <- struct{}{}
		go func(i int) {
			defer wg.Done()
			defer func() { <-sem }()
			outs[i] = runRecv(jobs[i].syms, jobs[i].cancel)
		}(i)
	}
	wg.Wait()
	for i, j := range jobs {
		cls := map[string]bool{}
		for k := 0; k < len(j.syms); k++ {
			switch c := j.syms[k]; {
			case c == 'F':
				cls["frame"] = true
			case c == 'P':
				cls["procErr"] = true
			case strings.ContainsRune("artos", rune(c)):
				cls["transient"] = true
			case strings.ContainsRune("nwx", rune(c)):
				cls["unknown"] = true
			default:
				cls["broken"] = true
			}
		}
		var parts []string
		for _, k := range []string{"frame", "procErr", "transient", "unknown", "broken"} {
			if cls[k] {
				parts = append(parts, k)
				r.Count(k)
			}
		}
		class := strings.Join(parts, "+")
		if j.cancel != "-" {
			class += "/cancel"
			r.Count("cancelled")
		}
		if len(j.syms) > 100 {
			class += "/long"
		}
		syms := j.syms
		if syms == "" {
			syms = "-"
			class = ""
		}
		r.Case(class, "recv", syms, j.cancel, outs[i])
	}
	if r.Tier == "thorough" || os.Getenv("VERIF_SEARCH") == "1" {
		// reading continues after ANY number of unknown failures in a row (2 300 of them: 12 s of 5 ms pauses)
		syms := strings.Repeat("x", 2300) + "FPF"
		r.Count("long-failure-run")
		r.Case("long-failure-run", "recv", syms, "-", runRecv(syms, "-"))
	}
	// pause after read errors: isolated unknown errors, each followed by frames, then one more error
	for _, k := range []int{1, 4, 9, 12} {
		syms := strings.Repeat("xFF", k) + "pFxF"
		r.Count("pause")
		r.Case("pause", "recvpause", syms, runRecvPause(syms))
	}
}
