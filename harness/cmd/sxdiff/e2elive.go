package main

// e2elive (C19, C01 per pass) — `sx arp --live <d>` of the real binary in the network namespace, over several passes:
// every pass probes every address of the subnet (minus the exclusions) exactly once, the next pass starts no earlier
// than <d> after the previous one ended, answering hosts keep being probed, and the scan goes on until SIGINT.
// Variants: all CPUs / one CPU visible to the process, --exclude, --rate, --json, hosts that answer.
//
//	e2elive cmdline N rescanMs passes=K;bad=B;mingap=<µs>;exit=E
//	        N = addresses a pass must cover; a pass = N consecutive probes; bad = passes that are not a permutation of the
//	        expected set; mingap = shortest time between the last probe of a pass and the first of the next

import (
	"bytes"
	"encoding/binary"
	"fmt"
	"os"
	"path/filepath"
	"strings"
	"syscall"
	"time"

	"sxverif/harness/internal/hx"
)

func init() { components["e2elive"] = e2eLiveComponent }

func e2eLiveComponent(r *hx.Run) {
	if !enterNetlab() {
		return
	}
	r.Rule = "case = one `sx arp --live <d>` run of the real binary (all CPUs | one CPU; with / without --exclude, --rate, --json; some hosts answering) on a /28../29 of the veth pair, ended by SIGINT after 4-6 passes; observed = the ARP requests on the wire cut into passes of N probes: number of complete passes, passes that are not a permutation of the expected addresses, shortest gap between two passes, exit status; expected: >= 3 passes, none bad, gap >= d; non-trivial class = (cpus, exclude, rate, answering)"
	lab := newNetlab()
	defer lab.close()
	dir := e2eWorkDir()
	defer os.RemoveAll(dir)
	rng := r.Rng
	runs := 4
	if r.Tier == "thorough" {
		runs = 16
	}
	for it := 0; it <= runs; it++ {
		ones := 28 + rng.Intn(2)
		n := 1 << uint(32-ones)
		base := labNet | uint32(n*(2+rng.Intn(200/n)))
		rescan := 120 + 20*rng.Intn(6)
		oneCPU := it%2 == 1
		withExcl := it%4 >= 2
		withRate := it%4 == 1 || rng.Intn(4) == 0
		answering := it%3 != 0
		big := it == runs
		if big {
			// more addresses than the packet pipeline of a one-CPU process holds at a time, sent slowly: a pass that lasts
			// several rescan times, and is still whole
			ones, n, base, oneCPU, withExcl, withRate, answering = 22, 1024, labNet&^1023, true, false, false, false
		}
		args := []string{"arp", "--live", fmt.Sprintf("%dms", rescan)}
		if rng.Intn(2) == 0 {
			args = append(args, "--json")
		}
		expect := map[uint32]bool{}
		for i := 0; i < n; i++ {
			expect[base+uint32(i)] = true
		}
		if withExcl {
			ex := base + uint32(1+rng.Intn(n-1))
			delete(expect, ex)
			ef := filepath.Join(dir, fmt.Sprintf("excl-%d.txt", it))
			os.WriteFile(ef, []byte(v4Text(ex)+"\n"), 0o644)
			args = append(args, "--exclude", ef)
		}
		if withRate {
			// 400/s: a pass is over in a blink; 60/s: a pass takes longer than the rescan time itself (and is still whole)
			args = append(args, "--rate", []string{"400/s", "60/s"}[rng.Intn(2)])
		}
		if big {
			args = append(args, "--rate", "2500/s")
		}
		args = append(args, fmt.Sprintf("%s/%d", v4Text(base), ones))
		lab.settle(30 * time.Millisecond)
		lab.take()
		p, err := startSX(oneCPU, nil, args...)
		if err != nil {
			panic(err)
		}
		passes := 4 + rng.Intn(3)
		from := 0
		stop := time.Now().Add(time.Duration(passes)*time.Duration(rescan+40)*time.Millisecond + 400*time.Millisecond)
		if withRate {
			stop = stop.Add(time.Duration(passes) * 270 * time.Millisecond)
		}
		if big {
			stop = time.Now().Add(time.Duration(4*(410+rescan)) * time.Millisecond)
		}
		for !p.exited() && time.Now().Before(stop) {
			fs := lab.since(from)
			from += len(fs)
			if answering {
				for _, b := range fs {
					if len(b) >= 42 && bytes.Equal(b[6:12], lab.srcMAC) && b[12] == 8 && b[13] == 6 && b[21] == 1 {
						if t := binary.BigEndian.Uint32(b[38:42]); expect[t] && t%3 == 0 && binary.BigEndian.Uint32(b[28:32]) == labNet|1 {
							lab.inject(replyTo("pkt-arp", b))
						}
					}
				}
			}
			time.Sleep(time.Millisecond)
		}
		early := p.exited()
		p.signal(syscall.SIGINT)
		res := p.wait(20 * time.Second)
		lab.settle(40 * time.Millisecond)
		frames, stamps := lab.takeStamped()
		var tg []uint32
		var ts []int64
		for i, b := range frames {
			if len(b) >= 42 && bytes.Equal(b[6:12], lab.srcMAC) && b[12] == 8 && b[13] == 6 && b[21] == 1 &&
				binary.BigEndian.Uint32(b[38:42])&^uint32(n-1) == base && binary.BigEndian.Uint32(b[28:32]) == labNet|1 {
				tg = append(tg, binary.BigEndian.Uint32(b[38:42]))
				ts = append(ts, stamps[i])
			}
		}
		m := len(expect)
		k, bad := len(tg)/m, 0
		mingap := int64(1 << 60)
		for c := 0; c < k; c++ {
			seen := map[uint32]int{}
			for _, t := range tg[c*m : (c+1)*m] {
				seen[t]++
			}
			ok := len(seen) == m
			for t, cnt := range seen {
				if !expect[t] || cnt != 1 {
					ok = false
				}
			}
			if !ok {
				bad++
			}
			if c > 0 {
				if g := ts[c*m] - ts[c*m-1]; g < mingap {
					mingap = g
				}
			}
		}
		if k < 2 {
			mingap = 0
		}
		obs := fmt.Sprintf("passes=%d;bad=%d;mingap=%d;exit=%d", k, bad, mingap/1000, res.exit)
		if res.timedOut {
			obs = "TIMEOUT"
		} else if early {
			obs = fmt.Sprintf("ENDED-BY-ITSELF passes=%d;exit=%d;%s", k, res.exit, hx.HexS(lastLine(res.stderr)))
		}
		cpus := "all"
		if oneCPU {
			cpus = "one"
		}
		r.Count("cpus:" + cpus)
		// the rescan time separates the passes of the REQUEST stream (C19: the timer is armed when the last request of a
		// pass has been taken); with --rate the frames of that pass are still queued behind the limiter then, so the pause
		// seen on the wire is shorter by the time the queue takes to drain: no gap is demanded of rate-limited runs
		gapMs := rescan
		if withRate || big {
			gapMs = 0
		}
		r.Case(fmt.Sprintf("cpus=%s/excl=%v/rate=%v/answering=%v/big=%v", cpus, withExcl, withRate, answering, big), "e2elive",
			cmdText(args), fmt.Sprint(m), fmt.Sprint(gapMs), obs)
	}
	_ = strings.TrimSpace
}
