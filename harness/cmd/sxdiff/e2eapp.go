package main

// e2eapp — the real `sx socks | elastic | docker` commands (the whole binary: cobra wiring, option parsing,
// CLI defaults, the real zap logger on stderr, the real result logger on stdout) against scripted servers
// inside the network namespace of netlab.go.  The in-process components hook BELOW the commands (they call
// newScanEngine / the scanners themselves and substitute their own logger); this one observes what a user
// of the program observes:
//
//   apprec   (C08, C10): one run against a farm of targets, each with a known behaviour
//              ok       answers the probe positively (socks: 05 00; elastic: a JSON object on GET /, every
//                       node of the farm reports the SAME cluster_name / cluster_uuid; docker: /info object)
//              neg      socks only: answers 05 ff (no record, no error)
//              refused  nothing listens (connection refused)
//              tarpit   accepts, reads, never answers (the probe times out)
//              garbage  answers with something that is not the protocol (one byte and EOF; HTML; junk bytes;
//                       a JSON array; closes without a word)
//              drop     an address on the veth subnet whose SYNs leave and are never answered
//            observed = the multiset of (scan, proto, host) of the JSON RECORDS on stdout, the number of
//            ERROR records on stderr, the primary requests the `ok` servers saw, connections to excluded
//            targets, exit status.  Verdict: records = the `ok` targets (once each, with the probed scheme /
//            address / port), error records = one per failed probe, nothing for excluded targets.
//            The exit delay is the default (or larger): that is what C08's last clause is stated for.  Ground truth
//            `ok` means "the server answers": a run in which an error record says that the probe of an ok server
//            timed out (the machine stalled for longer than -t) is measured again, at most twice.  Fewer than
//            ~20 failed probes per run, except in the `mass` cases (250-500 ports of one address, most closed).
//   apptime  (C09, C10): one run against ONE target that never answers (SYN dropped, or accept-and-stall),
//            `-t T` given or left at the CLI default (read from `sx <cmd> --help`); observed = wall time of the
//            process; verdict = wall <= k*T + exit delay + slack (socks k = 4: connect + 3 data timeouts;
//            elastic / docker k = 1: the fatal first request / the one deadline per probe).  Only an upper
//            bound with generous slack; a duration over the bound is re-measured (at most twice) first.
//   limwire  (C15, C18): `--rate N/W` runs of all three commands in all three target modes (subnet x ports,
//            address file x ports, pairs file WITHOUT ports), `-w 1` and several workers; observed = the time
//            of the first connection to every target, sorted; verdict = the handler of e2erate:
//            t(i+k-1)-t(i) >= (k-2-10)*floor(W/N) - slack for every window.  For one worker that is
//            C15_sequential (+ measurement slack); for several workers it is weaker than C15_wire + C15_any_set
//            ((k-1-10)*p - eps on the sorted times), eps = dispatch latency of one probe <= slack.

import (
	"compress/gzip"
	"bytes"
	"strconv"
	"bufio"
	"crypto/ecdsa"
	"crypto/elliptic"
	"crypto/rand"
	"crypto/tls"
	"crypto/x509"
	"crypto/x509/pkix"
	"encoding/json"
	"fmt"
	"io"
	"math/big"
	"net"
	"net/http"
	"os"
	"path/filepath"
	"regexp"
	"sort"
	"strings"
	"sync"
	"time"

	"sxverif/harness/internal/hx"
)

func init() {
	components["e2eapp"] = e2eAppComponent
}

type appTarget struct {
	ip   uint32
	port int
	beh  string
	excl bool
}

func (t appTarget) key() string { return fmt.Sprintf("%s:%d", v4Text(t.ip), t.port) }

// appFarm: one listener per target that listens at all
type appFarm struct {
	cmd, proto string
	tlsCfg     *tls.Config
	variant    int
	mu         sync.Mutex
	ls         []net.Listener
	first      map[string]int64
	primary    map[string]int
	conns      map[string]int
	hold       chan struct{}
	wg         sync.WaitGroup
}

const appClusterUUID = "Zk3wYhT7Qm2kq0sX1bVn5A"

func appSelfSigned() *tls.Config {
	key, err := ecdsa.GenerateKey(elliptic.P256(), rand.Reader)
	if err != nil {
		panic(err)
	}
	tmpl := &x509.Certificate{SerialNumber: big.NewInt(1), Subject: pkix.Name{CommonName: "lab"},
		NotBefore: time.Now().Add(-time.Hour), NotAfter: time.Now().Add(24 * time.Hour),
		KeyUsage: x509.KeyUsageDigitalSignature, ExtKeyUsage: []x509.ExtKeyUsage{x509.ExtKeyUsageServerAuth},
		IPAddresses: []net.IP{net.IPv4(127, 0, 0, 1)}}
	der, err := x509.CreateCertificate(rand.Reader, tmpl, tmpl, &key.PublicKey, key)
	if err != nil {
		panic(err)
	}
	return &tls.Config{Certificates: []tls.Certificate{{Certificate: [][]byte{der}, PrivateKey: key}}}
}

func newAppFarm(cmd, proto string, tlsCfg *tls.Config, variant int, targets []appTarget) *appFarm {
	f := &appFarm{cmd: cmd, proto: proto, tlsCfg: tlsCfg, variant: variant, first: map[string]int64{},
		primary: map[string]int{}, conns: map[string]int{}, hold: make(chan struct{})}
	for _, t := range targets {
		if t.beh == "refused" || t.beh == "drop" || t.beh == "badline" {
			continue
		}
		l, err := net.Listen("tcp4", t.key())
		if err != nil {
			continue // the same target twice: already listening
		}
		f.ls = append(f.ls, l)
		go f.serve(l, t)
	}
	return f
}

func (f *appFarm) serve(l net.Listener, t appTarget) {
	k := t.key()
	for {
		conn, err := l.Accept()
		if err != nil {
			return
		}
		now := time.Now().UnixNano()
		f.mu.Lock()
		if _, ok := f.first[k]; !ok {
			f.first[k] = now
		}
		f.conns[k]++
		f.mu.Unlock()
		f.wg.Add(1)
		go func() {
			defer f.wg.Done()
			f.handle(conn, t)
		}()
	}
}

func (f *appFarm) stall() {
	select {
	case <-f.hold:
	case <-time.After(30 * time.Second):
	}
}

func (f *appFarm) countPrimary(k string) {
	f.mu.Lock()
	f.primary[k]++
	f.mu.Unlock()
}

func (f *appFarm) handle(conn net.Conn, t appTarget) {
	defer conn.Close()
	conn.SetDeadline(time.Now().Add(40 * time.Second))
	k := t.key()
	if t.beh == "slowok" {
		// a loaded server: the right answer, a few hundred milliseconds late (well within every timeout used)
		time.Sleep(250 * time.Millisecond)
		t.beh = "ok"
	}
	if f.cmd == "socks" {
		buf := make([]byte, 3)
		if _, err := io.ReadFull(conn, buf); err != nil {
			return
		}
		f.countPrimary(k)
		switch t.beh {
		case "ok":
			conn.Write([]byte{5, 0})
		case "neg":
			conn.Write([]byte{5, 0xff})
		case "garbage":
			if f.variant%2 == 0 {
				conn.Write([]byte{5}) // one byte, then end of stream
			}
		case "tarpit":
			f.stall()
		}
		return
	}
	var c net.Conn = conn
	if t.beh == "tarpit" && f.variant%2 == 1 {
		f.stall() // stalls before a single byte is read (https: before the handshake)
		return
	}
	if f.proto == "https" {
		tc := tls.Server(conn, f.tlsCfg)
		if err := tc.Handshake(); err != nil {
			return
		}
		c = tc
	}
	req, err := http.ReadRequest(bufio.NewReader(c))
	if err != nil {
		return
	}
	path := req.URL.Path
	primary := (f.cmd == "elastic" && req.Method == "GET" && path == "/") ||
		(f.cmd == "docker" && strings.HasSuffix(path, "/info"))
	if primary {
		f.countPrimary(k)
	}
	reply := func(status int, ctype, body string, hdr ...string) {
		var sb strings.Builder
		if f.variant%3 == 0 && strings.Contains(req.Header.Get("Accept-Encoding"), "gzip") && len(body) > 0 {
			// a server with http compression on (Elasticsearch's default, any reverse proxy): it compresses when asked
			var zb bytes.Buffer
			zw := gzip.NewWriter(&zb)
			zw.Write([]byte(body))
			zw.Close()
			body = zb.String()
			hdr = append(hdr, "Content-Encoding: gzip", "Vary: Accept-Encoding")
		}
		fmt.Fprintf(&sb, "HTTP/1.1 %d %s\r\nContent-Type: %s\r\nContent-Length: %d\r\nConnection: close\r\n", status, http.StatusText(status), ctype, len(body))
		for _, h := range hdr {
			sb.WriteString(h + "\r\n")
		}
		sb.WriteString("\r\n")
		if req.Method != "HEAD" {
			sb.WriteString(body)
		}
		io.WriteString(c, sb.String())
	}
	switch t.beh {
	case "tarpit":
		f.stall()
	case "garbage":
		switch f.variant % 4 {
		case 0:
			reply(200, "text/html", "<html>It works!</html>")
		case 1:
			io.WriteString(c, "\x15\x03\x01\x00\x02junk junk junk\r\n\r\n")
		case 2:
			// closes without a word
		case 3:
			reply(200, "application/json", "[1,2,3]")
		}
	case "ok":
		switch {
		case f.cmd == "elastic" && path == "/":
			reply(200, "application/json; charset=UTF-8", fmt.Sprintf(`{"name":"node-%s","cluster_name":"lab","cluster_uuid":"%s","version":{"number":"7.10.2","lucene_version":"8.7.0"},"tagline":"You Know, for Search"}`, k, appClusterUUID))
		case f.cmd == "elastic":
			reply(200, "application/json; charset=UTF-8", `{"logs-1":{"aliases":{}},"users":{"aliases":{"u":{}}}}`)
		case strings.HasSuffix(path, "/_ping"):
			reply(200, "text/plain; charset=utf-8", "OK", "Api-Version: 1.41", "Ostype: linux")
		case strings.HasSuffix(path, "/info"):
			reply(200, "application/json", `{"ID":"7TRN:IPZB:QYBB","Containers":3,"Name":"lab-docker","OperatingSystem":"Debian GNU/Linux 11","KernelVersion":"5.10.0","Architecture":"x86_64"}`)
		case strings.HasSuffix(path, "/version"):
			reply(200, "application/json", `{"Version":"20.10.7","ApiVersion":"1.41","Os":"linux","Arch":"amd64"}`)
		default:
			reply(404, "application/json", `{"message":"page not found"}`)
		}
	}
}

func (f *appFarm) close() {
	for _, l := range f.ls {
		l.Close()
	}
	close(f.hold)
	done := make(chan struct{})
	go func() { f.wg.Wait(); close(done) }()
	select {
	case <-done:
	case <-time.After(2 * time.Second):
	}
}

// appRecordItems: the stdout of a --json run as (scan|proto|host) items
func appRecordItems(stdout string) []string {
	var items []string
	clean := regexp.MustCompile(`^[A-Za-z0-9_./:|-]*$`)
	for _, line := range strings.Split(stdout, "\n") {
		if strings.TrimSpace(line) == "" {
			continue
		}
		var m map[string]interface{}
		item := ""
		if err := json.Unmarshal([]byte(line), &m); err != nil {
			item = "BAD:" + hx.HexS(line)
		} else {
			scan, _ := m["scan"].(string)
			if scan == "socks" {
				ip, _ := m["ip"].(string)
				port, _ := m["port"].(float64)
				item = fmt.Sprintf("socks||%s:%d", ip, int64(port))
			} else {
				proto, _ := m["proto"].(string)
				host, _ := m["host"].(string)
				item = scan + "|" + proto + "|" + host
			}
			if !clean.MatchString(item) {
				item = "BAD:" + hx.HexS(item)
			}
		}
		if len(item) > 300 {
			item = item[:300]
		}
		items = append(items, item)
	}
	sort.Strings(items)
	return items
}

func appErrorRecords(stderr string) int {
	n := 0
	for _, line := range strings.Split(stderr, "\n") {
		if strings.Contains(line, `"level":"error"`) {
			n++
		}
	}
	return n
}

// appOkTimedOut: some error record is a timeout and names an `ok` target that is not excluded
func appOkTimedOut(targets []appTarget, stderr string) bool {
	var oks []string
	for _, t := range targets {
		if t.beh == "ok" && !t.excl {
			oks = append(oks, t.key())
		}
	}
	for _, line := range strings.Split(stderr, "\n") {
		if !strings.Contains(line, `"level":"error"`) {
			continue
		}
		if !(strings.Contains(line, "deadline exceeded") || strings.Contains(line, "i/o timeout") || strings.Contains(line, "Timeout exceeded")) {
			continue
		}
		for _, k := range oks {
			// the address is followed by a character that cannot continue a port number
			for i := strings.Index(line, k); i >= 0; {
				rest := line[i+len(k):]
				if rest == "" || rest[0] < '0' || rest[0] > '9' {
					return true
				}
				j := strings.Index(rest, k)
				if j < 0 {
					break
				}
				i += len(k) + j
			}
		}
	}
	return false
}

// appSpec: how the targets are handed to the command
type appSpec struct {
	mode    string // net | addrs | pairs
	base    uint32
	ones    int
	ports   []int
	targets []appTarget
	exclude []string // lines of the exclusion file
}

// appArgs writes the files of one run and returns the target arguments (to be appended after the flags)
func appArgs(rng interface{ Intn(int) int }, cdir string, s appSpec) []string {
	os.MkdirAll(cdir, 0o755)
	var args []string
	if len(s.ports) > 0 {
		var ps []string
		for i := 0; i < len(s.ports); i++ {
			j := i
			for j+1 < len(s.ports) && s.ports[j+1] == s.ports[j]+1 {
				j++
			}
			if j > i && rng.Intn(2) == 0 {
				ps = append(ps, fmt.Sprintf("%d-%d", s.ports[i], s.ports[j]))
				i = j
			} else {
				ps = append(ps, fmt.Sprint(s.ports[i]))
			}
		}
		if rng.Intn(3) == 0 {
			p := filepath.Join(cdir, "ports.txt")
			os.WriteFile(p, []byte(strings.Join(ps, "\n")+"\n"), 0o644)
			args = append(args, "--ports-file", p)
		} else {
			args = append(args, "-p", strings.Join(ps, ","))
		}
	}
	if len(s.exclude) > 0 {
		p := filepath.Join(cdir, "exclude.txt")
		os.WriteFile(p, []byte("# not these\n"+strings.Join(s.exclude, "\n")+"\n"), 0o644)
		args = append(args, "--exclude", p)
	}
	switch s.mode {
	case "net":
		if s.ones == 32 && rng.Intn(2) == 0 {
			args = append(args, v4Text(s.base))
		} else {
			args = append(args, fmt.Sprintf("%s/%d", v4Text(s.base), s.ones))
		}
	case "addrs":
		var sb strings.Builder
		seen := map[uint32]bool{}
		for _, t := range s.targets {
			if !seen[t.ip] {
				seen[t.ip] = true
				fmt.Fprintf(&sb, "{\"ip\":\"%s\"}\n", v4Text(t.ip))
			}
		}
		p := filepath.Join(cdir, "ips.jsonl")
		os.WriteFile(p, []byte(sb.String()), 0o644)
		args = append(args, "-f", p)
	case "pairs":
		var sb strings.Builder
		for i, t := range s.targets {
			if t.beh == "badline" {
				// names no target: one error record, and the scan goes on with the next line
				// (bad address, port outside 1..65535, a missing field; a line that is not JSON at all may end the
				// reading of the list — C13 allows that — and is left to component `gen`)
				sb.WriteString([]string{"{\"ip\":\"10.0.0.256\",\"port\":80}", "{\"ip\":\"127.0.0.1\",\"port\":70000}", "{\"ip\":\"abc\",\"port\":80}",
					"{\"ip\":\"\",\"port\":80}", "{\"ip\":\"127.0.0.1\",\"port\":0}", "{\"port\":80}", "{\"ip\":\"127.0.0.1\"}", "{\"ip\":\"127.0.0.1\",\"port\":65536}"}[i%8] + "\n")
				continue
			}
			fmt.Fprintf(&sb, "{\"ip\":\"%s\",\"port\":%d}\n", v4Text(t.ip), t.port)
		}
		p := filepath.Join(cdir, "pairs.jsonl")
		os.WriteFile(p, []byte(sb.String()), 0o644)
		args = append(args, "-f", p)
	}
	return args
}

// appHelpTimeout reads the default of --timeout off `sx <cmd> --help`: the timeout a user who gives no -t
// has configured
func appHelpTimeout(cmd string) time.Duration {
	res := runSX(nil, 20*time.Second, cmd, "--help")
	m := regexp.MustCompile(`--timeout duration[^\n]*\(default ([0-9a-zµ.]+)\)`).FindStringSubmatch(res.stdout + res.stderr)
	if m == nil {
		return 0
	}
	d, err := time.ParseDuration(m[1])
	if err != nil {
		return 0
	}
	return d
}

func e2eAppComponent(r *hx.Run) {
	if !enterNetlab() {
		return
	}
	r.Rule = "case = one complete run of the real sx binary (socks | elastic | docker, http and https) in a private network namespace against scripted servers. apprec: a farm of targets with known behaviours (ok / neg / refused / tarpit / garbage / SYN dropped), target modes subnet x ports | address file x ports | pairs file, optional --exclude, default or larger exit delay; observed = (multiset of (scan, proto, host) of the JSON records on stdout, number of error records on stderr, primary requests seen by the ok servers, connections to excluded targets, exit status); verdict = records are the ok targets once each, one error record per failed probe (a run in which the probe of an ok server ran into its timeout - a stalled machine - is measured again, at most twice). apptime: one target that never answers, -t given or left at the default shown by --help; observed = wall time; verdict = wall <= k*T + exit delay + slack (a duration over the bound is re-measured, at most twice). limwire: --rate N/W, all three commands, all three target modes, 1 and several workers; observed = sorted times of the first connection to each target; verdict = every window obeys (k-2-10)*floor(W/N) - slack; non-trivial class = (tag, command, proto, mode, workers>1, timeout given)"
	lab := newNetlab()
	defer lab.close()
	// nobody answers on the far end of the veth pair: with a permanent neighbour entry the SYNs for these
	// addresses leave at once and are never answered (a filtered host)
	const dropBase = labNet | 90
	for i := uint32(0); i < 10; i++ {
		ipCmd("neigh", "add", v4Text(dropBase+i), "lladdr", fmt.Sprintf("02:00:00:00:01:%02x", i), "dev", "veth0", "nud", "permanent")
	}
	dir := e2eWorkDir()
	defer os.RemoveAll(dir)
	rng := r.Rng
	tlsCfg := appSelfSigned()
	thorough := r.Tier == "thorough"
	caseNo := 0
	nextDir := func() string {
		caseNo++
		return filepath.Join(dir, fmt.Sprint(caseNo))
	}
	helpT := map[string]time.Duration{}
	for _, cmd := range []string{"socks", "elastic", "docker"} {
		helpT[cmd] = appHelpTimeout(cmd)
	}

	// ------------------------------------------------------------ apptime
	type timeCase struct {
		cmd, proto, kind string
		tMs              int // 0 = default
	}
	type timeOut struct {
		fields []string
		class  string
	}
	runTime := func(tc timeCase, loop uint32) timeOut {
		// loop = a private 127.x.y.z for the tarpit, so that concurrent cases do not share anything
		mult := 1
		if tc.cmd == "socks" {
			mult = 4
		}
		eff := time.Duration(tc.tMs) * time.Millisecond
		if tc.tMs == 0 {
			eff = helpT[tc.cmd]
		}
		const exitMs, slackMs = 40, 600
		slack := slackMs
		if eff >= 2*time.Second {
			slack = 2000
		}
		// kind "<k>/nofile<d>": the process may hold d descriptors more than the fewest it starts with (`ulimit -n`
		// close to what the process needs anyway: socket() fails with EMFILE, for all probes or for all but d at a time)
		var opt sxOpt
		if k, d, ok := strings.Cut(tc.kind, "/nofile"); ok {
			tc.kind = k
			n, _ := strconv.Atoi(d)
			opt.nofile = appMinNofile() + n
		}
		kindText := tc.kind
		if opt.nofile > 0 {
			kindText += fmt.Sprintf("/nofile+%d", opt.nofile-appMinNofile())
		}
		var tgt appTarget
		if strings.HasPrefix(tc.kind, "syndrop") {
			tgt = appTarget{ip: dropBase + loop%10, port: 1024 + int(loop%50000), beh: "drop"}
		} else {
			tgt = appTarget{ip: loop, port: 20000 + int(loop%20000), beh: "tarpit"}
		}
		args := []string{tc.cmd, "--json", "--exit-delay", fmt.Sprintf("%dms", exitMs)}
		if tc.proto == "https" {
			args = append(args, "--proto", "https")
		}
		if tc.tMs > 0 {
			args = append(args, "-t", fmt.Sprintf("%dms", tc.tMs))
		}
		tgts := []appTarget{tgt}
		if strings.HasSuffix(tc.kind, "/many") {
			// a thousand filtered hosts at once, a worker for each: every probe still takes its own k*T, they do not
			// queue up behind each other
			tc.kind = strings.TrimSuffix(tc.kind, "/many")
			kindText = tc.kind + "/many"
			var sb strings.Builder
			for i := 0; i < 1000; i++ {
				fmt.Fprintf(&sb, "{\"ip\":\"%s\",\"port\":%d}\n", v4Text(dropBase+uint32(i%10)), 2000+i+int(loop%30000))
			}
			pf := filepath.Join(nextDir(), "many.jsonl")
			os.MkdirAll(filepath.Dir(pf), 0o755)
			os.WriteFile(pf, []byte(sb.String()), 0o644)
			args = append(args, "-w", "1000", "-f", pf)
		} else if opt.nofile > 0 {
			// six such targets, taken up by six workers at once: the probes that get no descriptor fail, they do not
			// queue up behind the ones that hold one (each for its full k*T)
			for i := 1; i < 6; i++ {
				tgts = append(tgts, appTarget{ip: tgt.ip, port: tgt.port + i, beh: tgt.beh})
			}
			args = append(args, "-p", fmt.Sprintf("%d-%d", tgt.port, tgt.port+5), v4Text(tgt.ip))
		} else {
			args = append(args, "-p", fmt.Sprint(tgt.port), v4Text(tgt.ip))
		}
		limit := time.Duration(mult)*eff + time.Duration(exitMs+slack)*time.Millisecond
		obs := ""
		best := time.Duration(-1)
		tries := 3
		if eff >= 2*time.Second {
			tries = 2
		}
		for try := 0; try < tries; try++ {
			farm := newAppFarm(tc.cmd, tc.proto, tlsCfg, try, tgts)
			res := runSXOpt(opt, nil, limit+20*time.Second, args...)
			farm.close()
			if res.exit != 0 && !res.timedOut {
				obs = "FAIL exit=" + fmt.Sprint(res.exit) + " " + hx.HexS(lastLine(res.stderr))
				break
			}
			if best < 0 || res.dur < best {
				best = res.dur
			}
			if res.dur <= limit {
				break
			}
		}
		if obs == "" {
			obs = fmt.Sprintf("us=%d", best.Microseconds())
		}
		tflag := "default"
		if tc.tMs > 0 {
			tflag = "given"
		}
		return timeOut{class: fmt.Sprintf("apptime/%s/%s/%s/%s", tc.cmd, tc.proto, kindText, tflag),
			fields: []string{"apptime", tc.cmd, kindText, tflag, fmt.Sprint(eff.Milliseconds()), fmt.Sprint(mult), fmt.Sprint(exitMs), fmt.Sprint(slack), obs}}
	}
	// the long cases (CLI defaults: seconds of pure waiting) run beside everything else
	var longCases []timeCase
	longCases = append(longCases, timeCase{"docker", "http", "tarpit", 0})
	if thorough {
		longCases = append(longCases, timeCase{"elastic", "http", "tarpit", 0}, timeCase{"socks", "", "syndrop", 0},
			timeCase{"docker", "https", "syndrop", 0}, timeCase{"docker", "http", "tarpit", int(helpT["docker"].Milliseconds())},
			timeCase{"elastic", "https", "tarpit", int(helpT["elastic"].Milliseconds())}, timeCase{"socks", "", "tarpit", 0})
	}
	longOut := make([]timeOut, len(longCases))
	var longWG sync.WaitGroup
	for i, tc := range longCases {
		if tc.tMs == 0 && helpT[tc.cmd] == 0 {
			longOut[i] = timeOut{class: "apptime/nohelp", fields: []string{"apptime", tc.cmd, tc.kind, "default", "0", "1", "0", "0", "FAIL no default in --help"}}
			continue
		}
		longWG.Add(1)
		go func(i int, tc timeCase) {
			defer longWG.Done()
			longOut[i] = runTime(tc, uint32(127<<24|250<<16)|uint32(i+1)<<8|7)
		}(i, tc)
	}

	// ------------------------------------------------------------ apprec
	type combo struct{ cmd, proto string }
	combos := []combo{{"socks", ""}, {"elastic", "http"}, {"elastic", "https"}, {"docker", "http"}, {"docker", "https"}}
	rounds := 1
	if thorough {
		rounds = 20
	}
	runRec := func(cb combo, sp appSpec, extra string) {
		mode := sp.mode
		tMs := 500 + 100*rng.Intn(3)
		workers := []int{5, 16, 100}[rng.Intn(3)]
		if strings.Contains(extra, "/bignet") {
			tMs, workers = 800, 100
		}
		args := []string{cb.cmd, "--json", "-t", fmt.Sprintf("%dms", tMs), "-w", fmt.Sprint(workers)}
		if rng.Intn(3) == 0 && !strings.Contains(extra, "/bignet") {
			args = []string{cb.cmd, "--json", "-t", fmt.Sprintf("%dms", tMs)} // default worker count
			workers = 0
		}
		if cb.proto == "https" {
			args = append(args, "--proto", "https")
		} else if cb.proto == "http" && rng.Intn(2) == 0 {
			args = append(args, "--proto", "http")
		}
		exitDelay := "default"
		if rng.Intn(2) == 0 {
			exitDelay = []string{"300ms", "450ms"}[rng.Intn(2)]
			args = append(args, "--exit-delay", exitDelay)
		}
		args = append(args, appArgs(rng, nextDir(), sp)...)
		variant := rng.Intn(8)
		// the reader of stderr lags (a paused terminal, `2>&1 | less`): the error records are still all there in the end
		slowErr := time.Duration(0)
		if strings.HasSuffix(extra, "/slowerr") {
			slowErr = 200 * time.Millisecond
		}
		var farm *appFarm
		var res sxRun
		for try := 0; try < 3; try++ {
			farm = newAppFarm(cb.cmd, cb.proto, tlsCfg, variant, sp.targets)
			merged := strings.HasSuffix(extra, "/merged")
			res = runSXOpt(sxOpt{slowStderr: slowErr, merge: merged}, nil, 60*time.Second, args...)
			if merged {
				// `sx … 2>&1 | tee log`: every line of the one stream is one whole record of one of the two kinds
				var so, se strings.Builder
				for _, line := range strings.Split(res.stdout, "\n") {
					var m map[string]interface{}
					if strings.TrimSpace(line) == "" {
						continue
					}
					if json.Unmarshal([]byte(line), &m) == nil && m["level"] == "error" {
						se.WriteString(line + "\n")
					} else {
						so.WriteString(line + "\n") // a result, or neither (then it shows up as a BAD record)
					}
				}
				res.stdout, res.stderr = so.String(), se.String()
			}
			time.Sleep(10 * time.Millisecond)
			farm.close()
			lab.take()
			// ground truth `ok` = "the server answers": if the machine stalled so long that a probe of an ok server ran
			// into its timeout (the error record names the target), the run says nothing about sx: measured again
			if !appOkTimedOut(sp.targets, res.stderr) {
				break
			}
			r.Count("apprec-remeasured")
		}
		if d := os.Getenv("VERIF_E2EAPP_DEBUG"); d != "" {
			os.WriteFile(filepath.Join(d, fmt.Sprintf("apprec-%d.stderr", r.Evaluations+1)), []byte(strings.Join(args, " ")+"\n"+res.stderr), 0o644)
		}
		obs := ""
		switch {
		case res.timedOut:
			obs = "TIMEOUT"
		case res.exit != 0:
			obs = "FAIL exit=" + fmt.Sprint(res.exit) + " " + hx.HexS(lastLine(res.stderr))
		default:
			var seen []string
			// x = connections to destinations OUTSIDE the target set: excluded targets, and the decoy that the
			// proxy / docker-client variables of the process environment point at
			x := decoyHits()
			farm.mu.Lock()
			for _, t := range sp.targets {
				if t.excl {
					x += farm.conns[t.key()]
					delete(farm.conns, t.key())
				}
			}
			done := map[string]bool{}
			for _, t := range sp.targets {
				if !t.excl && (t.beh == "ok" || t.beh == "slowok") && !done[t.key()] {
					done[t.key()] = true
					seen = append(seen, fmt.Sprintf("%s*%d", t.key(), farm.primary[t.key()]))
				}
			}
			farm.mu.Unlock()
			sort.Strings(seen)
			obs = fmt.Sprintf("rec=%s;err=%d;seen=%s;x=%d;exit=0", strings.Join(appRecordItems(res.stdout), ","),
				appErrorRecords(res.stderr), strings.Join(seen, ","), x)
		}
		var tl []string
		nBad := 0
		for _, t := range sp.targets {
			if t.beh == "badline" {
				nBad++
				continue
			}
			e := "0"
			if t.excl {
				e = "1"
			}
			tl = append(tl, fmt.Sprintf("%s:%s:%s", t.key(), t.beh, e))
		}
		if nBad > 0 {
			tl = append(tl, fmt.Sprintf("badlines*%d", nBad))
			r.Count("with-bad-lines")
		}
		class := fmt.Sprintf("apprec/%s/%s/%s%s", cb.cmd, cb.proto, mode, extra)
		if len(sp.exclude) > 0 {
			class += "/excl"
		}
		r.Count("apprec:" + cb.cmd)
		r.Count("mode:" + mode)
		r.Count(fmt.Sprintf("workers:%d", workers))
		r.Case(class, "apprec", cb.cmd, cb.proto, fmt.Sprintf("t=%dms;w=%d;exit=%s;v=%d;%s", tMs, workers, exitDelay, variant, mode), strings.Join(tl, ","), obs)
	}
	for round := 0; round < rounds; round++ {
		for ci, cb := range combos {
			mode := []string{"net", "pairs", "addrs"}[(round+ci)%3]
			if round > 0 {
				mode = []string{"net", "pairs", "addrs"}[rng.Intn(3)]
			}
			behs := []string{"ok", "refused", "tarpit", "garbage"}
			if cb.cmd == "socks" {
				behs = append(behs, "neg")
			}
			var sp appSpec
			sp.mode = mode
			loopBase := uint32(127<<24) | uint32(1+rng.Intn(200))<<16 | uint32(rng.Intn(250))<<8
			nAddr, nPort := 4, 2+rng.Intn(2)
			if thorough && rng.Intn(2) == 0 {
				nAddr = 8
			}
			p0 := 20000 + rng.Intn(20000)
			var addrs []uint32
			switch mode {
			case "net":
				sp.ones = 30
				if nAddr == 8 {
					sp.ones = 29
				}
				sp.base = loopBase | uint32(rng.Intn(32))<<3
				for i := 0; i < nAddr; i++ {
					addrs = append(addrs, sp.base+uint32(i))
				}
			default:
				for i := 0; i < nAddr; i++ {
					addrs = append(addrs, loopBase|uint32(1+i*3+rng.Intn(3)))
				}
			}
			for p := 0; p < nPort; p++ {
				sp.ports = append(sp.ports, p0+p)
			}
			// exclusion: one address (all of its ports)
			exclIP := uint32(0)
			if rng.Intn(2) == 0 || round == 0 && ci%2 == 0 {
				exclIP = addrs[rng.Intn(len(addrs))]
				if rng.Intn(2) == 0 {
					sp.exclude = []string{v4Text(exclIP)}
				} else {
					sp.exclude = []string{v4Text(exclIP) + "/32"}
				}
			}
			for _, a := range addrs {
				for _, p := range sp.ports {
					sp.targets = append(sp.targets, appTarget{ip: a, port: p, excl: a == exclIP})
				}
			}
			if mode == "pairs" {
				// arbitrary pairs: drop some, give every pair its own port, add SYN-dropping hosts
				var ts []appTarget
				for i, t := range sp.targets {
					if rng.Intn(5) == 0 {
						continue
					}
					t.port = p0 + i*7 + rng.Intn(7)
					ts = append(ts, t)
				}
				for i := 0; i < 1+rng.Intn(2); i++ {
					ts = append(ts, appTarget{ip: dropBase + uint32(rng.Intn(10)), port: 1 + rng.Intn(65000), beh: "drop"})
				}
				// lines that name no target at all, between the good ones: an error record each, and the scan goes on
				for i := 0; i < rng.Intn(4); i++ {
					ts = append(ts, appTarget{beh: "badline"})
				}
				rngShuffle(rng, ts)
				sp.targets, sp.ports = ts, nil
			}
			// behaviours: every class at least once among the targets that are not excluded, at least three ok
			var free []int
			for i, t := range sp.targets {
				if !t.excl && t.beh == "" {
					free = append(free, i)
				}
			}
			rngShuffleInts(rng, free)
			must := append(append([]string{}, behs...), "ok", "ok")
			for j, i := range free {
				if j < len(must) {
					sp.targets[i].beh = must[j]
				} else if rng.Intn(3) == 0 {
					sp.targets[i].beh = "ok"
				} else {
					sp.targets[i].beh = behs[rng.Intn(len(behs))]
				}
			}
			for i := range sp.targets {
				if sp.targets[i].beh == "" { // excluded: something that would be noticed
					sp.targets[i].beh = []string{"ok", "tarpit"}[rng.Intn(2)]
				}
			}
			runRec(cb, sp, "")
		}
	}

	// more failed probes in one second than any log sampler or the 100-slot error buffer lets through unnoticed:
	// one address, some hundred ports, nothing listens on most of them
	nMass := 2
	if thorough {
		nMass = 6
	}
	for i := 0; i < nMass; i++ {
		cb := combos[rng.Intn(len(combos))]
		var sp appSpec
		sp.mode = "net"
		sp.ones = 32
		sp.base = uint32(127<<24) | uint32(1+rng.Intn(200))<<16 | uint32(rng.Intn(250))<<8 | uint32(1+rng.Intn(250))
		p0 := 20000 + rng.Intn(20000)
		n := 250 + rng.Intn(250)
		if i%2 == 1 {
			n = 600 + rng.Intn(300) // some hundred kilobytes of error records
		}
		for p := 0; p < n; p++ {
			sp.ports = append(sp.ports, p0+p)
			beh := "refused"
			if rng.Intn(40) == 0 {
				beh = "ok"
			}
			sp.targets = append(sp.targets, appTarget{ip: sp.base, port: p0 + p, beh: beh})
		}
		if i%2 == 0 {
			runRec(cb, sp, "/mass")
		} else {
			runRec(cb, sp, "/mass/slowerr")
		}
	}
	// results and error records, hundreds of each at the same time, into ONE stream (`2>&1`): every line is still one
	// whole record (a record is one write)
	nMerged := 1
	if thorough {
		nMerged = 4
	}
	for i := 0; i < nMerged; i++ {
		cb := combos[rng.Intn(len(combos))]
		if i == 0 {
			cb = combos[0]
		}
		var sp appSpec
		sp.mode, sp.ones = "net", 32
		sp.base = uint32(127<<24) | uint32(1+rng.Intn(200))<<16 | uint32(rng.Intn(250))<<8 | uint32(1+rng.Intn(250))
		p0 := 20000 + rng.Intn(20000)
		n := 500 + rng.Intn(300)
		for p := 0; p < n; p++ {
			sp.ports = append(sp.ports, p0+p)
			beh := "refused"
			if p%2 == 0 {
				beh = "ok"
			}
			sp.targets = append(sp.targets, appTarget{ip: sp.base, port: p0 + p, beh: beh})
		}
		runRec(cb, sp, "/mass/merged")
	}

	// a subnet of thousands of addresses, nothing listening on most of them, a few servers that take their time: the
	// records name THOSE servers (whatever the generator did with its address buffers in the meantime)
	nBig := 1
	if thorough {
		nBig = 4
	}
	for i := 0; i < nBig; i++ {
		cb := combos[(i*2)%len(combos)] // socks first
		var sp appSpec
		sp.mode, sp.ones = "net", 21
		sp.base = uint32(127<<24) | uint32(1+rng.Intn(200))<<16 | uint32(rng.Intn(31)*8)<<8
		port := 20000 + rng.Intn(20000)
		sp.ports = []int{port}
		slow := map[int]bool{}
		for len(slow) < 6 {
			slow[1+rng.Intn(2046)] = true
		}
		for a := 0; a < 2048; a++ {
			beh := "refused"
			if slow[a] {
				beh = "slowok"
			}
			sp.targets = append(sp.targets, appTarget{ip: sp.base + uint32(a), port: port, beh: beh})
		}
		runRec(cb, sp, "/bignet")
	}
	// a target list that is mostly rubbish: tens of thousands of lines that name no target (more error records in a
	// second than any "flood guard" lets through), a few good ones among them
	nFlood := 1
	if thorough {
		nFlood = 3
	}
	for i := 0; i < nFlood; i++ {
		cb := combos[rng.Intn(len(combos))]
		var sp appSpec
		sp.mode = "pairs"
		loop := uint32(127<<24) | uint32(1+rng.Intn(200))<<16 | uint32(rng.Intn(250))<<8
		n := 24000 + rng.Intn(8000)
		for j := 0; j < n; j++ {
			if j%8000 == 4000 {
				sp.targets = append(sp.targets, appTarget{ip: loop | uint32(1+j/8000), port: 20000 + rng.Intn(20000), beh: "ok"})
			}
			sp.targets = append(sp.targets, appTarget{beh: "badline"})
		}
		runRec(cb, sp, "/errflood")
	}

	// C16 at the process boundary, where the logger's own failures count: stdout refuses every write (/dev/full: a
	// full disk behind `> results.txt`), text mode; the scan still runs to its end and waits the exit delay
	nDelay := 2
	if thorough {
		nDelay = 8
	}
	for i := 0; i < nDelay; i++ {
		cb := combos[(i*2)%len(combos)]
		loop := uint32(127<<24) | uint32(1+rng.Intn(200))<<16 | uint32(rng.Intn(250))<<8 | uint32(1+rng.Intn(200))
		port := 20000 + rng.Intn(20000)
		tgts := []appTarget{{ip: loop, port: port, beh: "ok"}, {ip: loop, port: port + 1, beh: "ok"}, {ip: loop, port: port + 2, beh: "refused"}}
		exitMs := 500 + 100*rng.Intn(4)
		args := []string{cb.cmd, "-t", "400ms", "--exit-delay", fmt.Sprintf("%dms", exitMs)}
		if cb.proto == "https" {
			args = append(args, "--proto", "https")
		}
		args = append(args, "-p", fmt.Sprintf("%d-%d", port, port+2), v4Text(loop))
		farm := newAppFarm(cb.cmd, cb.proto, tlsCfg, 1, tgts)
		res := runSXOpt(sxOpt{stdoutPath: "/dev/full"}, nil, 30*time.Second, args...)
		farm.close()
		obs := fmt.Sprintf("us=%d;exit=%d", res.dur.Microseconds(), res.exit)
		if res.timedOut {
			obs = "TIMEOUT"
		}
		r.Count("appdelay:" + cb.cmd)
		r.Case(fmt.Sprintf("appdelay/%s/%s", cb.cmd, cb.proto), "appdelay", cb.cmd, fmt.Sprint(exitMs), obs)
	}

	// ------------------------------------------------------------ apptime, short timeouts
	shortCases := []timeCase{{"socks", "", "syndrop", 0}, {"socks", "", "tarpit", 0}, {"elastic", "http", "tarpit", 0},
		{"docker", "http", "tarpit", 0}, {"elastic", "https", "syndrop", 0}, {"docker", "https", "tarpit", 0}}
	// … and with hardly any file descriptor to spare
	shortCases = append(shortCases, timeCase{"socks", "", "syndrop/many", 0}, timeCase{"socks", "", "tarpit/nofile0", 0}, timeCase{"socks", "", "tarpit/nofile1", 0},
		timeCase{"elastic", "http", "tarpit/nofile0", 0}, timeCase{"docker", "http", "tarpit/nofile0", 0})
	nShort := len(shortCases)
	if thorough {
		nShort = 46
	}
	for i := 0; i < nShort; i++ {
		tc := shortCases[i%len(shortCases)]
		if i >= len(shortCases) {
			cb := combos[rng.Intn(len(combos))]
			tc = timeCase{cmd: cb.cmd, proto: cb.proto, kind: []string{"syndrop", "tarpit", "tarpit/nofile0", "syndrop/nofile1", "tarpit/nofile2", "syndrop/many"}[rng.Intn(6)]}
		}
		tc.tMs = 150 + 50*rng.Intn(4) // 150..300 ms: 4*T + slack stays well below the commands' defaults
		out := runTime(tc, uint32(127<<24|251<<16)|uint32(1+rng.Intn(250))<<8|uint32(1+rng.Intn(250)))
		lab.take()
		r.Count("apptime:" + tc.cmd)
		r.Case(out.class, out.fields...)
	}

	// ------------------------------------------------------------ limwire
	type rateCase struct {
		cmd, proto, mode string
		workers          int
	}
	rateCases := []rateCase{{"socks", "", "pairs", 1}, {"elastic", "http", "pairs", 6}, {"docker", "http", "net", 8},
		{"socks", "", "net", 4}, {"docker", "http", "pairs", 1}, {"elastic", "https", "addrs", 3}}
	nRate := len(rateCases)
	if thorough {
		nRate = 54
	}
	for i := 0; i < nRate; i++ {
		rc := rateCases[i%len(rateCases)]
		if i >= len(rateCases) {
			cb := combos[rng.Intn(len(combos))]
			rc = rateCase{cb.cmd, cb.proto, []string{"net", "pairs", "addrs"}[rng.Intn(3)], []int{1, 1, 2, 5, 16}[rng.Intn(5)]}
		}
		// per-probe budget 6..10 ms, written in one of three ways
		perMs := 6 + rng.Intn(5)
		var n int
		var w time.Duration
		var rate string
		nAddr, nPort := 8, 6
		form := rng.Intn(4)
		if i < len(rateCases) && i%3 == 2 {
			form = 3
		}
		switch form {
		case 3:
			// a window that does not divide a second, and enough probes for a rate that is off by a fifth to show
			// beyond the burst allowance and the slack
			wms := []int{400, 600, 700, 150}[rng.Intn(4)]
			if i < len(rateCases) {
				wms = []int{400, 600}[i/3%2]
			}
			n, w = wms/perMs, time.Duration(wms)*time.Millisecond
			rate = fmt.Sprintf("%d/%dms", n, wms)
			nPort = 30
		case 0:
			n, w = 1000/perMs, time.Second
			rate = fmt.Sprintf("%d/s", n)
		case 1:
			n, w = 500/perMs, 500*time.Millisecond
			rate = fmt.Sprintf("%d/500ms", n)
		default:
			n, w = 2000/perMs, 2*time.Second
			rate = fmt.Sprintf("%d/2s", n)
		}
		var sp appSpec
		sp.mode = rc.mode
		loopBase := uint32(127<<24) | uint32(1+rng.Intn(200))<<16 | uint32(rng.Intn(250))<<8
		p0 := 20000 + rng.Intn(20000)
		sp.ones = 29
		sp.base = loopBase | uint32(rng.Intn(32))<<3
		for a := 0; a < nAddr; a++ {
			for p := 0; p < nPort; p++ {
				t := appTarget{ip: sp.base + uint32(a), port: p0 + p, beh: "ok"}
				if rc.mode == "pairs" {
					t.port = p0 + a*nPort + p
				}
				sp.targets = append(sp.targets, t)
			}
		}
		if rc.mode == "pairs" {
			rngShuffle(rng, sp.targets)
		} else {
			for p := 0; p < nPort; p++ {
				sp.ports = append(sp.ports, p0+p)
			}
		}
		exitMs := 30 + 10*rng.Intn(3)
		args := []string{rc.cmd, "--json", "--exit-delay", fmt.Sprintf("%dms", exitMs), "-t", "2s", "-w", fmt.Sprint(rc.workers)}
		if rng.Intn(2) == 0 {
			args = append(args, "--rate", rate)
		} else {
			args = append(args, "-r", rate)
		}
		if rc.proto == "https" {
			args = append(args, "--proto", "https")
		}
		args = append(args, appArgs(rng, nextDir(), sp)...)
		farm := newAppFarm(rc.cmd, rc.proto, tlsCfg, 0, sp.targets)
		res := runSX(nil, 120*time.Second, args...)
		time.Sleep(10 * time.Millisecond)
		farm.close()
		lab.take()
		obs := ""
		if res.exit != 0 || res.timedOut {
			obs = "FAIL exit=" + fmt.Sprint(res.exit) + " " + hx.HexS(lastLine(res.stderr))
		} else {
			var stamps []int64
			farm.mu.Lock()
			for _, t := range farm.first {
				stamps = append(stamps, t)
			}
			farm.mu.Unlock()
			sort.Slice(stamps, func(i, j int) bool { return stamps[i] < stamps[j] })
			var sb strings.Builder
			sb.WriteString("t=")
			for j, t := range stamps {
				if j > 0 {
					sb.WriteByte(',')
				}
				sb.WriteString(fmt.Sprint(t - stamps[0]))
			}
			obs = sb.String()
		}
		wc := "w1"
		if rc.workers > 1 {
			wc = "wN"
		}
		r.Count("limwire:" + rc.cmd)
		r.Count("ratemode:" + rc.mode)
		r.Case(fmt.Sprintf("limwire/%s/%s/%s/%s", rc.cmd, rc.proto, rc.mode, wc), "limwire",
			fmt.Sprintf("%s_%s_w%d_%s", rc.cmd, rc.mode, rc.workers, strings.ReplaceAll(rate, "/", "per")),
			fmt.Sprint(n), fmt.Sprint(int64(w)), fmt.Sprint(len(sp.targets)), fmt.Sprint(int64(50_000_000)), obs)
	}

	longWG.Wait()
	for _, out := range longOut {
		r.Count("apptime-long:" + out.fields[1])
		r.Case(out.class, out.fields...)
	}
}

func rngShuffle(rng interface{ Intn(int) int }, ts []appTarget) {
	for i := len(ts) - 1; i > 0; i-- {
		j := rng.Intn(i + 1)
		ts[i], ts[j] = ts[j], ts[i]
	}
}

func rngShuffleInts(rng interface{ Intn(int) int }, xs []int) {
	for i := len(xs) - 1; i > 0; i-- {
		j := rng.Intn(i + 1)
		xs[i], xs[j] = xs[j], xs[i]
	}
}

// appMinNofile: the smallest `ulimit -n` the sx process starts with at all (below it the Go runtime itself fails:
// epoll / eventfd); found once, by trying
var (
	appMinNofileOnce sync.Once
	appMinNofileN    int
)

func appMinNofile() int {
	appMinNofileOnce.Do(func() {
		appMinNofileN = 16
		for n := 3; n < 16; n++ {
			res := runSXOpt(sxOpt{nofile: n}, nil, 5*time.Second, "socks", "--json", "-t", "100ms", "--exit-delay", "10ms", "-p", "9", "127.255.255.254")
			if res.timedOut || res.exit == 0 {
				appMinNofileN = n
				return
			}
		}
	})
	return appMinNofileN
}
