package main

// component `arpcache` (C11): (A) random ARP replies through the REAL ARP processor -> real MarshalJSON ->
// real arp.FillCache -> real NewCacheRequestGenerator; (B) random cache files (duplicates, 16-byte
// spellings, unknown extra fields, null fields, malformed addresses) through the same loader and stage.

import (
	"bytes"
	"context"
	"encoding/hex"
	"errors"
	"fmt"
	"github.com/google/gopacket/macs"
	"net"
	"sort"
	"strconv"
	"strings"
	"sync"
	"time"

	"github.com/v-byte-cpu/sx/pkg/scan"
	"github.com/v-byte-cpu/sx/pkg/scan/arp"
	"sxverif/harness/internal/hx"
)

func init() {
	components["arpcache"] = arpcacheComponent
	replayers["arpnil"] = func(f []string) string { return runArpNil(f[1]) }
	replayers["arpc"] = func(f []string) string { return runArpC(f[1], f[2], f[3]) }
}

type fixedGen struct{ reqs []*scan.Request }

func (g *fixedGen) GenerateRequests(ctx context.Context, _ *scan.Range) (<-chan *scan.Request, error) {
	ch := make(chan *scan.Request, len(g.reqs))
	for _, r := range g.reqs {
		ch <- r
	}
	close(ch)
	return ch, nil
}

func parseReqs(s string) []*scan.Request {
	var out []*scan.Request
	if s == "-" {
		return out
	}
	for _, q := range strings.Split(s, ",") {
		switch {
		case q == "e":
			out = append(out, &scan.Request{Err: errors.New("earlier error")})
		case strings.HasPrefix(q, "w:"):
			out = append(out, &scan.Request{DstIP: net.ParseIP(q[2:]).To16(), DstPort: 80})
		default:
			out = append(out, &scan.Request{DstIP: net.ParseIP(q).To4(), DstPort: 80})
		}
	}
	return out
}

func runArpC(linesHex, gwHex, reqs string) string {
	var file bytes.Buffer
	if linesHex != "-" {
		for _, h := range strings.Split(linesHex, ",") {
			file.Write(hx.UnHex(h))
			file.WriteByte('\n')
		}
	}
	var out string
	p, msg := hx.Recover(func() {
		cache := arp.NewCache()
		if err := arp.FillCache(cache, &file); err != nil {
			out = "ERR"
			return
		}
		// an address that is no IPv4 address at all has no entry: this is what the gateway lookup asks when the
		// interface has no default route (getGatewayMAC -> cache.Get(nil))
		nilHit := cache.Get(nil) != nil || cache.Get(net.IP{}) != nil
		var gw net.HardwareAddr
		if gwHex != "-" {
			gw = net.HardwareAddr(hx.UnHex(gwHex))
		}
		// the same queries from several goroutines at once over the ONE cache (as the generator workers of a
		// scan do): every stream must see what a single stream sees
		const streams = 4
		outs := make([]string, streams)
		var wg sync.WaitGroup
		for k := 0; k < streams; k++ {
			wg.Add(1)
			go func(k int) {
				defer wg.Done()
				outs[k] = queryStream(cache, gw, reqs)
			}(k)
		}
		wg.Wait()
		out = outs[0]
		if nilHit {
			out += ",NIL-ADDRESS-HAS-AN-ENTRY"
		}
		for k := 1; k < streams; k++ {
			if outs[k] != outs[0] {
				out = outs[0] + ",CONCURRENT-STREAM-DIFFERS:" + outs[k]
				break
			}
		}
	})
	if p {
		return "PANIC " + strings.ReplaceAll(msg, "\t", " ")
	}
	return out
}

// hostileOUIs: the prefixes of the real vendor table whose name contains a character that JSON must escape
var hostileOUIs = func() [][3]byte {
	var out [][3]byte
	for k, v := range macs.ValidMACPrefixMap {
		for _, c := range v {
			if c == '"' || c == '\\' || c < 0x20 || c > 0x7e {
				out = append(out, k)
				break
			}
		}
	}
	sort.Slice(out, func(i, j int) bool { return string(out[i][:]) < string(out[j][:]) })
	return out
}()

// runArpNil loads a cache file and asks for the entry of "no address"
func runArpNil(linesHex string) string {
	var file bytes.Buffer
	for _, h := range strings.Split(linesHex, ",") {
		file.Write(hx.UnHex(h))
		file.WriteByte('\n')
	}
	out := ""
	p, msg := hx.Recover(func() {
		cache := arp.NewCache()
		if err := arp.FillCache(cache, &file); err != nil {
			out = "ERR"
			return
		}
		hit := 0
		if cache.Get(nil) != nil || cache.Get(net.IP{}) != nil {
			hit = 1
		}
		out = fmt.Sprintf("nilhit=%d", hit)
	})
	if p {
		return "PANIC " + strings.ReplaceAll(msg, "\t", " ")
	}
	return out
}

// queryStream runs one request list through the real cache request generator
func queryStream(cache *arp.Cache, gw net.HardwareAddr, reqs string) string {
	rs := parseReqs(reqs)
	earlier := map[*scan.Request]error{}
	for _, r := range rs {
		earlier[r] = r.Err
	}
	g := arp.NewCacheRequestGenerator(&fixedGen{rs}, gw, cache)
	ch, err := g.GenerateRequests(context.Background(), &scan.Range{})
	if err != nil {
		return "GENERR"
	}
	var parts []string
	timeout := time.After(10 * time.Second)
	for done := false; !done; {
		select {
		case r, ok := <-ch:
			if !ok {
				done = true
				break
			}
			switch {
			case r.Err != nil && earlier[r] != nil && r.Err == earlier[r]:
				parts = append(parts, "e")
			case r.Err != nil:
				parts = append(parts, "n")
			default:
				parts = append(parts, "m"+hex.EncodeToString(r.DstMAC))
			}
		case <-timeout:
			parts = append(parts, "TIMEOUT")
			done = true
		}
	}
	if len(parts) == 0 {
		return "-"
	}
	return strings.Join(parts, ",")
}

// arpReply: Ethernet + ARP reply frame
func arpReply(sha net.HardwareAddr, spa net.IP) []byte {
	f := make([]byte, 60)
	copy(f[0:6], []byte{2, 0, 0, 0, 0, 1})
	copy(f[6:12], sha)
	f[12], f[13] = 0x08, 0x06
	a := f[14:]
	a[0], a[1] = 0, 1
	a[2], a[3] = 0x08, 0x00
	a[4], a[5] = 6, 4
	a[6], a[7] = 0, 2
	copy(a[8:14], sha)
	copy(a[14:18], spa.To4())
	copy(a[18:24], []byte{2, 0, 0, 0, 0, 1})
	copy(a[24:28], []byte{10, 0, 0, 1})
	return f
}

// realArpLines: frames through the real processor and the real encoder
func realArpLines(frames [][]byte) []string {
	ctx, cancel := context.WithCancel(context.Background())
	defer cancel()
	results := scan.NewResultChan(ctx, len(frames)+1)
	sm := arp.NewScanMethod(nil, results)
	var lines []string
	for _, f := range frames {
		if err := sm.ProcessPacketData(f, nil); err != nil {
			lines = append(lines, "PROCERR")
			continue
		}
		select {
		case r := <-results.Chan():
			b, err := r.MarshalJSON()
			if err != nil {
				lines = append(lines, "MARSHALERR")
			} else {
				lines = append(lines, string(b))
			}
		case <-time.After(5 * time.Second):
			lines = append(lines, "NORESULT")
		}
	}
	return lines
}

func arpcacheComponent(r *hx.Run) {
	r.Rule = "A: 1..12 random ARP replies (colliding addresses with different MACs, vendor-table hits) through the real ARP processor and encoder, loaded by the real FillCache, queried through the real cache request generator (4- and 16-byte destination spellings, error requests, gateway present/absent). B: random cache files: valid lines, duplicates, ::ffff: spellings, key order, whitespace, unknown extra fields (nested), null fields, repeated keys, upper-case / dash / dotted MACs, malformed addresses and MACs, non-object lines. Non-trivial class = (A|B, line classes present, gateway?, outcome kinds present)"
	rng := r.Rng
	nA, nB := 400, 1200
	if r.Tier == "thorough" {
		nA, nB = 12000, 40000
	}
	ipPool := func() net.IP {
		return net.IPv4(10, byte(rng.Intn(2)), byte(rng.Intn(3)), byte([]int{0, 1, 9, 10, 99, 100, 200, 255}[rng.Intn(8)]))
	}
	rndIP := func() net.IP {
		if rng.Intn(3) == 0 {
			return net.IPv4(byte(rng.Intn(256)), byte(rng.Intn(256)), byte(rng.Intn(256)), byte(rng.Intn(256)))
		}
		return ipPool()
	}
	rndMAC := func() net.HardwareAddr {
		m := make(net.HardwareAddr, 6)
		rng.Read(m)
		switch rng.Intn(6) {
		case 0, 1: // a prefix from the vendor table
			copy(m, []byte{0x00, 0x1b, 0x21})
		case 2: // a prefix whose vendor NAME needs escaping in JSON (quotes, backslashes, non-ASCII, controls)
			if len(hostileOUIs) > 0 {
				o := hostileOUIs[rng.Intn(len(hostileOUIs))]
				copy(m, o[:])
			}
		}
		if rng.Intn(6) == 0 {
			m[rng.Intn(6)] = []byte{0, 0x0a, 0xa0, 0xff, 0x10}[rng.Intn(5)]
		}
		return m
	}
	mkReqs := func(known []net.IP) (string, map[string]bool) {
		kinds := map[string]bool{}
		var qs []string
		n := 1 + rng.Intn(8)
		for i := 0; i < n; i++ {
			var ip net.IP
			if len(known) > 0 && rng.Intn(3) != 0 {
				ip = known[rng.Intn(len(known))]
			} else {
				ip = rndIP()
			}
			switch rng.Intn(8) {
			case 0:
				qs = append(qs, "e")
			case 1, 2:
				qs = append(qs, "w:"+ip.String())
				kinds["wide"] = true
			default:
				qs = append(qs, ip.String())
			}
		}
		return strings.Join(qs, ","), kinds
	}
	emit := func(kind string, lines []string, cls map[string]bool, known []net.IP) {
		gw := "-"
		if rng.Intn(2) == 0 {
			gw = hex.EncodeToString(rndMAC())
			cls["gw"] = true
		}
		reqs, k2 := mkReqs(known)
		for k := range k2 {
			cls[k] = true
		}
		hl := make([]string, len(lines))
		for i, l := range lines {
			hl[i] = hx.HexS(l)
		}
		lh := strings.Join(hl, ",")
		if len(lines) == 0 {
			lh = "-"
		}
		obs := runArpC(lh, gw, reqs)
		for _, o := range strings.Split(obs, ",") {
			switch {
			case o == "ERR":
				cls["refused"] = true
			case o == "n":
				cls["noMAC"] = true
			case o == "e":
				cls["passErr"] = true
			case strings.HasPrefix(o, "m"):
				cls["mac"] = true
			}
		}
		var ks []string
		for k := range cls {
			ks = append(ks, k)
			r.Count(kind + "." + k)
		}
		sortStrings(ks)
		r.Case(kind+"/"+strings.Join(ks, "+"), "arpc", lh, gw, reqs, obs)
	}
	// ---- A
	for i := 0; i < nA; i++ {
		n := 1 + rng.Intn(12)
		var frames [][]byte
		var known []net.IP
		cls := map[string]bool{}
		for j := 0; j < n; j++ {
			ip := rndIP()
			if len(known) > 0 && rng.Intn(4) == 0 {
				ip = known[rng.Intn(len(known))]
				cls["dupAddr"] = true
			}
			known = append(known, ip)
			frames = append(frames, arpReply(rndMAC(), ip))
		}
		lines := realArpLines(frames)
		for _, l := range lines {
			if strings.Contains(l, `"vendor":""`) {
				cls["noVendor"] = true
			} else {
				cls["vendor"] = true
			}
		}
		emit("A", lines, cls, known)
	}
	// ---- B
	extras := []string{`"vendor":"x"`, `"vendor":"Intel \"Corp\" <&>"`, `"seen":12`, `"tags":["a",{"b":null}]`, `"meta":{"ip":"9.9.9.9","mac":"00:00:00:00:00:00"}`,
		`"x":-1.5e3`, `"y":true`, `"z":null`, `"vendor":null`, `"é":"é😀"`, `"IP":"7.7.7.7"`, `"":""`}
	for i := 0; i < nB; i++ {
		n := rng.Intn(7)
		var lines []string
		var known []net.IP
		cls := map[string]bool{}
		for j := 0; j < n; j++ {
			ip := rndIP()
			if len(known) > 0 && rng.Intn(3) == 0 {
				ip = known[rng.Intn(len(known))]
				cls["dupAddr"] = true
			}
			known = append(known, ip)
			ipS := ip.String()
			mac := rndMAC()
			macS := mac.String()
			k := rng.Intn(40)
			if rng.Intn(3) != 0 {
				k = 100 // plain
			}
			switch k {
			case 0:
				ipS = "::ffff:" + ipS
				cls["mapped"] = true
			case 1:
				macS = strings.ToUpper(macS)
				cls["upperMAC"] = true
			case 2:
				macS = strings.ReplaceAll(macS, ":", "-")
				cls["dashMAC"] = true
			case 3:
				h := hex.EncodeToString(mac)
				macS = h[0:4] + "." + h[4:8] + "." + h[8:12]
				cls["dotMAC"] = true
			case 4:
				ipS = []string{"01.2.3.4", "256.1.1.1", "1.2.3", "1.2.3.4.5", "", "abc", "1..2.3", "1.2.3.", ".1.2.3", "1.2.3.4 ", " 1.2.3.4", "1.2.3.00", "0.0.0.0", "255.255.255.255", "1.2.3.1000"}[rng.Intn(15)]
				cls["oddIP"] = true
			case 5:
				macS = []string{"aa:bb", "zz:bb:cc:dd:ee:ff", "", "aa:bb:cc:dd:ee", "aa:bb:cc:dd:ee:ff:", "aabbccddeeff", "aa:bb:cc:dd:ee:f", "aa:bb-cc:dd:ee:ff", "a:b:c:d:e:f", "aa:bb:cc:dd:ee:ff:00", "aabb.ccdd.eef", "aabb:ccdd:eeff"}[rng.Intn(12)]
				cls["oddMAC"] = true
			}
			fields := []string{`"ip":` + strconv.Quote(ipS), `"mac":` + strconv.Quote(macS)}
			switch k {
			case 6:
				fields[0] = `"ip":null`
				cls["nullField"] = true
			case 7:
				fields[0] = `"ip":` + strconv.Itoa(rng.Intn(100))
				cls["wrongType"] = true
			case 8:
				fields[1] = `"mac":["aa:bb:cc:dd:ee:ff"]`
				cls["wrongType"] = true
			case 9:
				fields = append(fields, `"ip":`+strconv.Quote(rndIP().String())) // repeated key: last wins
				cls["repeatedKey"] = true
			case 10:
				fields = fields[:1]
				cls["missingField"] = true
			case 11:
				fields = []string{fmt.Sprintf(`"ip":"\u003%d.2.3.4"`, rng.Intn(10)), fields[1]}
				cls["escapedIP"] = true
			}
			for e := rng.Intn(3); e > 0; e-- {
				fields = append(fields, extras[rng.Intn(len(extras))])
				cls["extra"] = true
			}
			rng.Shuffle(len(fields), func(a, b int) { fields[a], fields[b] = fields[b], fields[a] })
			sep := []string{",", ", ", " ,\t"}[rng.Intn(3)]
			line := "{" + strings.Join(fields, sep) + "}"
			if rng.Intn(10) == 0 {
				line = " " + strings.ReplaceAll(line, ":", " : ") + " "
				if strings.Contains(line, "ffff") || strings.Contains(macS, ":") {
					line = "{" + strings.Join(fields, sep) + "}  "
				}
				cls["ws"] = true
			}
			switch k {
			case 12:
				line = []string{"", "null", "[]", "{", `{"ip":"1.2.3.4"`, "x", `"s"`, "12", `{"ip":"1.2.3.4","mac":"aa:bb:cc:dd:ee:ff"}}`, "{}"}[rng.Intn(10)]
				cls["notObject"] = true
			}
			lines = append(lines, line)
		}
		emit("B", lines, cls, known)
	}
	// ---- D: cache files that also hold IPv6 neighbours (merged from `ip -j neigh`): they load, they are never the
	// answer for an IPv4 destination, and the lookup of "no address" (what getGatewayMAC asks when the interface has
	// no default route: cache.Get(nil)) finds nothing
	nD := 12
	if r.Tier == "thorough" {
		nD = 200
	}
	for i := 0; i < nD; i++ {
		var lines []string
		for j := 0; j < 1+rng.Intn(5); j++ {
			lines = append(lines, fmt.Sprintf(`{"ip":"%s","mac":"%s"}`, rndIP(), rndMAC()))
		}
		for j := 0; j < 1+rng.Intn(2); j++ {
			v6 := []string{"fe80::1", "2001:db8::5", "::1", "fe80::aa:bbff:fecc:ddee", "::"}[rng.Intn(5)]
			at := rng.Intn(len(lines) + 1)
			lines = append(lines[:at], append([]string{fmt.Sprintf(`{"ip":"%s","mac":"%s"}`, v6, rndMAC())}, lines[at:]...)...)
		}
		hl := make([]string, len(lines))
		for k, l := range lines {
			hl[k] = hx.HexS(l)
		}
		r.Count("D.v6entry")
		r.Case("D/v6entry", "arpnil", strings.Join(hl, ","), runArpNil(strings.Join(hl, ",")))
	}
	// ---- C: long cache files (several read-buffer lengths): every entry must still be found afterwards,
	// whatever memory the reader re-used while loading
	nC := 8
	if r.Tier == "thorough" {
		nC = 80
	}
	for i := 0; i < nC; i++ {
		n := 70 + rng.Intn(400)
		var lines []string
		var known []net.IP
		seen := map[string]bool{}
		for len(lines) < n {
			ip := net.IPv4(10, byte(rng.Intn(4)), byte(rng.Intn(256)), byte(rng.Intn(256)))
			if seen[ip.String()] {
				continue
			}
			seen[ip.String()] = true
			known = append(known, ip)
			l := fmt.Sprintf(`{"ip":"%s","mac":"%s"}`, ip, rndMAC())
			if rng.Intn(3) == 0 {
				l = fmt.Sprintf(`{"ip":"%s","mac":"%s","vendor":"%s"}`, ip, rndMAC(), strings.Repeat("v", rng.Intn(40)))
			}
			lines = append(lines, l)
		}
		// ask mostly for the earliest entries
		emit("C", lines, map[string]bool{"long": true}, known[:16])
	}
}
