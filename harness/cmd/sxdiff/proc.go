package main

import (
	"strconv"
	"encoding/binary"
	"encoding/hex"
	"fmt"
	"math/rand"
	"net"
	"strings"

	"github.com/google/gopacket"
	"github.com/google/gopacket/layers"
	"github.com/v-byte-cpu/sx/pkg/packet"
	"github.com/v-byte-cpu/sx/pkg/scan"
	"github.com/v-byte-cpu/sx/pkg/scan/arp"
	"github.com/v-byte-cpu/sx/pkg/scan/icmp"
	"github.com/v-byte-cpu/sx/pkg/scan/tcp"
	"github.com/v-byte-cpu/sx/pkg/scan/udp"
	"sxverif/harness/internal/hx"
)

func init() {
	components["proc"] = procComponent
	replayers["proc"] = func(f []string) string { return runProc(f[1], f[2]) }
}

// recording ResultChan: Put is synchronous, so the record (if any) of each frame is known right after
// ProcessPacketData returns
type recResults struct{ got []scan.Result }

func (r *recResults) Put(x scan.Result)        { r.got = append(r.got, x) }
func (r *recResults) Chan() <-chan scan.Result { return nil }

func ipHex(s string) string {
	ip := net.ParseIP(s)
	if ip4 := ip.To4(); ip4 != nil {
		return hex.EncodeToString(ip4)
	}
	return "S" + hex.EncodeToString([]byte(s))
}

func macHex(s string) string {
	m, err := net.ParseMAC(s)
	if err != nil {
		return "S" + hex.EncodeToString([]byte(s))
	}
	return hex.EncodeToString(m)
}

func newProcessor(cfg string) (packet.Processor, *recResults) {
	res := &recResults{}
	f := strings.Split(cfg, ":")
	switch f[0] {
	case "tcp":
		filter := tcp.TrueFilter
		if f[2] == "synack" {
			filter = func(pkt *layers.TCP) bool { return pkt.SYN && pkt.ACK }
		}
		flags := tcp.AllFlags
		if f[3] == "empty" {
			flags = tcp.EmptyFlags
		}
		return tcp.NewScanMethod(f[1], nil, res, tcp.WithPacketFilterFunc(filter), tcp.WithPacketFlagsFunc(flags),
			tcp.WithScanVPNmode(f[4] == "1")), res
	case "icmp":
		if f[1] == "udp" {
			return udp.NewScanMethod(nil, res, f[2] == "1"), res
		}
		return icmp.NewScanMethod(nil, res, f[2] == "1"), res
	case "arp":
		return arp.NewScanMethod(nil, res), res
	}
	panic("bad proc cfg " + cfg)
}

func runProc(cfg, framesHex string) string {
	p, res := newProcessor(cfg)
	var outs []string
	if framesHex == "-" {
		return "-"
	}
	reuse := len(framesHex)%2 == 0
	ring := make([]byte, 1<<16)
	for _, fh := range strings.Split(framesHex, ",") {
		frame := hx.UnHex(fh)
		// exact-capacity slice: slicing beyond len must panic as it would on a tight capture buffer.
		// Every second history re-uses ONE backing array for all its frames, as the zero-copy AF_PACKET
		// ring does with its slots: a processor that keeps a slice into an earlier frame (gopacket's
		// decoders are zero-copy) then sees that slice change under it.
		var data []byte
		if reuse {
			data = ring[:len(frame):len(frame)]
		} else {
			data = make([]byte, len(frame))
		}
		copy(data, frame)
		before := len(res.got)
		var err error
		panicked, _ := hx.Recover(func() { err = p.ProcessPacketData(data, &gopacket.CaptureInfo{}) })
		if !reuse {
			for i := range data { // the memory of a frame does not outlive the call
				data[i] = 0xEE
			}
		}
		switch {
		case panicked:
			outs = append(outs, "P")
		case len(res.got) > before+1:
			outs = append(outs, "MULTI")
		case len(res.got) == before+1:
			// rendered only after the WHOLE history has been processed (see below): a record is read by
			// the logger later, when the processor has long moved on to other frames, so a record that
			// aliases processor state or the capture buffer shows up as a field from another frame
			outs = append(outs, fmt.Sprintf("@%d", before))
			if err != nil {
				outs[len(outs)-1] += "+E"
			}
		case err != nil:
			outs = append(outs, "E")
		default:
			outs = append(outs, "N")
		}
	}
	for i, o := range outs {
		if !strings.HasPrefix(o, "@") {
			continue
		}
		suffix := ""
		if strings.HasSuffix(o, "+E") {
			suffix, o = "+E", o[:len(o)-2]
		}
		idx, _ := strconv.Atoi(o[1:])
		outs[i] = renderRecord(res.got[idx]) + suffix
	}
	return strings.Join(outs, "|")
}

func renderRecord(x scan.Result) string {
	switch r := x.(type) {
	case *tcp.ScanResult:
		fl := r.Flags
		if fl == "" {
			fl = "-"
		}
		return fmt.Sprintf("R:tcp:%s:%s:%d:%s", r.ScanType, ipHex(r.IP), r.Port, fl)
	case *icmp.ScanResult:
		return fmt.Sprintf("R:icmp:%s:%s:%d:%d:%d", r.ScanType, ipHex(r.IP), r.TTL, r.ICMP.Type, r.ICMP.Code)
	case *arp.ScanResult:
		return fmt.Sprintf("R:arp:%s:%s", ipHex(r.IP), macHex(r.MAC))
	}
	return "R:?"
}

// ---------- frame construction ----------

type frameGen struct{ rng *rand.Rand }

func (g *frameGen) bytes(n int) []byte {
	b := make([]byte, n)
	g.rng.Read(b)
	return b
}

func (g *frameGen) eth(etherType uint16, payload []byte) []byte {
	b := append(g.bytes(12), byte(etherType>>8), byte(etherType))
	return append(b, payload...)
}

type ipOpt struct {
	version, ihl  int
	totalLen      int // -1 = correct
	proto         byte
	flagsfrags    uint16
	options       []byte
	ttl           byte
	src           [4]byte
}

func (g *frameGen) ipv4(o ipOpt, payload []byte) []byte {
	hl := 20 + len(o.options)
	ihl := o.ihl
	if ihl < 0 {
		ihl = hl / 4
	}
	tl := o.totalLen
	if tl == -1 {
		tl = hl + len(payload)
	}
	h := make([]byte, 20)
	h[0] = byte(o.version<<4 | ihl&0xf)
	h[1] = byte(g.rng.Intn(256))
	binary.BigEndian.PutUint16(h[2:], uint16(tl))
	binary.BigEndian.PutUint16(h[4:], uint16(g.rng.Intn(65536)))
	binary.BigEndian.PutUint16(h[6:], o.flagsfrags)
	h[8] = o.ttl
	h[9] = o.proto
	copy(h[12:16], o.src[:])
	copy(h[16:20], g.bytes(4))
	return append(append(h, o.options...), payload...)
}

func (g *frameGen) goodIPOpts() []byte {
	switch g.rng.Intn(6) {
	case 0:
		return []byte{1, 1, 1, 1}
	case 1:
		return []byte{7, 7, 4, 0, 0, 0, 0, 0} // record route, length 7 + EOL
	case 2:
		return []byte{0x94, 4, 0, 0} // router alert
	case 3:
		return []byte{1, 0, 9, 9} // NOP, EOL, padding garbage
	}
	return nil
}

func (g *frameGen) badIPOpts() []byte {
	switch g.rng.Intn(5) {
	case 0:
		return []byte{7, 2, 1, 1} // length 2: gopacket refuses
	case 1:
		return []byte{7, 0, 1, 1}
	case 2:
		return []byte{7, 9, 1, 1} // exceeds
	case 3:
		return []byte{1, 1, 1, 7} // type without length byte
	}
	return []byte{68, 1, 0, 0}
}

type tcpOpt struct {
	doff    int // -1 = correct
	flags   int
	options []byte
	sport   uint16
}

func (g *frameGen) tcp(o tcpOpt, payload []byte) []byte {
	hl := 20 + len(o.options)
	doff := o.doff
	if doff < 0 {
		doff = hl / 4
	}
	h := make([]byte, 20)
	binary.BigEndian.PutUint16(h[0:], o.sport)
	binary.BigEndian.PutUint16(h[2:], uint16(32768+g.rng.Intn(28000)))
	copy(h[4:12], g.bytes(8))
	h[12] = byte(doff<<4) | byte(g.rng.Intn(8)<<1)&0x0e | byte(o.flags>>8&1)
	h[13] = byte(o.flags)
	copy(h[14:20], g.bytes(6))
	return append(append(h, o.options...), payload...)
}

func (g *frameGen) goodTCPOpts() []byte {
	switch g.rng.Intn(5) {
	case 0:
		return []byte{2, 4, 5, 0xb4}
	case 1:
		return []byte{2, 4, 5, 0xb4, 4, 2, 1, 3, 3, 7, 0, 0}
	case 2:
		return []byte{1, 1, 0, 77}
	case 3:
		return []byte{8, 10, 1, 2, 3, 4, 5, 6, 7, 8, 1, 1}
	}
	return nil
}

func (g *frameGen) badTCPOpts() []byte {
	switch g.rng.Intn(4) {
	case 0:
		return []byte{2, 0, 1, 1}
	case 1:
		return []byte{2, 1, 1, 1}
	case 2:
		return []byte{2, 9, 1, 1}
	}
	return []byte{1, 1, 1, 2}
}

func (g *frameGen) icmp(typ, code byte, payload []byte) []byte {
	return append([]byte{typ, code, 0, 0, byte(g.rng.Intn(256)), byte(g.rng.Intn(256)), 0, 1}, payload...)
}

func (g *frameGen) arpBody(htype, ptype uint16, hlen, plen byte, total int) []byte {
	b := make([]byte, 8)
	binary.BigEndian.PutUint16(b[0:], htype)
	binary.BigEndian.PutUint16(b[2:], ptype)
	b[4], b[5] = hlen, plen
	binary.BigEndian.PutUint16(b[6:], 2)
	return append(b, g.bytes(total)...)
}

// one frame for processor kind (tcp|icmp|arp) and link mode; returns frame and a class label
func (g *frameGen) frame(kind string, vpn bool) ([]byte, string) {
	rng := g.rng
	link := func(ip []byte) []byte {
		if vpn {
			return ip
		}
		return g.eth(0x0800, ip)
	}
	src := [4]byte{10, byte(rng.Intn(3)), byte(rng.Intn(256)), byte(1 + rng.Intn(250))}
	baseIP := func(proto byte) ipOpt {
		return ipOpt{version: 4, ihl: -1, totalLen: -1, proto: proto, flagsfrags: []uint16{0, 0x4000, 0x8000, 0xc000}[rng.Intn(4)], ttl: byte(1 + rng.Intn(255)), src: src, options: g.goodIPOpts()}
	}
	transport := func() ([]byte, byte) {
		switch kind {
		case "tcp":
			return g.tcp(tcpOpt{doff: -1, flags: rng.Intn(512), options: g.goodTCPOpts(), sport: uint16(rng.Intn(65536))}, g.bytes(rng.Intn(3)*rng.Intn(20))), 6
		case "icmp":
			return g.icmp(byte(rng.Intn(20)), byte(rng.Intn(16)), g.bytes(rng.Intn(40))), 1
		}
		return g.bytes(8), 17
	}
	if kind == "arp" {
		switch c := rng.Intn(14); {
		case c < 5:
			return g.eth(0x0806, append(g.arpBody(1, 0x0800, 6, 4, 20), g.bytes(rng.Intn(2)*18)...)), "arp-valid"
		case c == 5:
			hl := []byte{0, 1, 2, 3, 5, 7, 16, 124, 128, 255}[rng.Intn(10)]
			return g.eth(0x0806, g.arpBody(1, 0x0800, hl, 4, rng.Intn(300))), "arp-hlen"
		case c == 6:
			pl := []byte{0, 1, 3, 5, 16, 120, 124, 128, 255}[rng.Intn(9)]
			return g.eth(0x0806, g.arpBody(1, 0x0800, 6, pl, rng.Intn(300))), "arp-plen"
		case c == 13 && rng.Intn(2) == 0:
			// both sizes odd at once, incl. pairs that keep the body at the Ethernet/IPv4 length of 28
			// (2*hlen + 2*plen = 20) and exact-fit bodies
			hl := byte(rng.Intn(11))
			pl := byte(10 - int(hl))
			if rng.Intn(3) == 0 {
				hl, pl = byte(rng.Intn(20)), byte(rng.Intn(20))
			}
			return g.eth(0x0806, g.arpBody(1, 0x0800, hl, pl, 2*int(hl)+2*int(pl)+rng.Intn(2)*rng.Intn(30))), "arp-sizes"
		case c == 7:
			// incl. types whose low byte is 1: gopacket's ARP.AddrType keeps only that byte (D18)
			return g.eth(0x0806, g.arpBody([]uint16{uint16(rng.Intn(40)), 0x0101, 0x8001, 0x0100, 0xff01}[rng.Intn(5)], 0x0800, 6, 4, 20)), "arp-htype"
		case c == 8:
			return g.eth(0x0806, g.arpBody(1, []uint16{0x86dd, 0x0806, 0, 0x0801}[rng.Intn(4)], 6, 4, 20)), "arp-ptype"
		case c == 9 && rng.Intn(2) == 0:
			// an ARP frame with trailing padding as the ring holds it (64 bytes), or whole
			f := g.eth(0x0806, append(g.arpBody(1, 0x0800, 6, 4, 20), g.bytes(23+rng.Intn(1500))...))
			if rng.Intn(2) == 0 {
				return f[:64], "arp-snap-cut"
			}
			return f, "arp-padded"
		case c == 9:
			f := g.eth(0x0806, g.arpBody(1, 0x0800, 6, 4, 20))
			return f[:rng.Intn(len(f))], "arp-truncated"
		case c == 10:
			return g.eth(0x6558, g.eth(uint16(0x9000+rng.Intn(10)), g.bytes(rng.Intn(40)))), "eth-in-eth"
		case c == 11:
			return g.eth(0x6558, g.eth(0x0806, g.arpBody(1, 0x0800, 6, 4, 20))), "eth-in-eth-arp"
		case c == 12:
			return g.eth(0x0800, g.ipv4(baseIP(6), g.bytes(20))), "not-arp"
		default:
			return g.eth(uint16(rng.Intn(65536)), g.bytes(rng.Intn(60))), "random-ethertype"
		}
	}
	tp, proto := transport()
	switch c := rng.Intn(34); {
	case c < 9:
		return link(g.ipv4(baseIP(proto), tp)), "valid"
	case c == 9:
		o := baseIP(proto)
		o.totalLen = 0
		return link(g.ipv4(o, tp)), "tso-zero-length"
	case c == 10:
		o := baseIP(proto)
		return link(append(g.ipv4(o, tp), g.bytes(1+rng.Intn(10))...)), "trailing-padding"
	case c == 11:
		f := link(g.ipv4(baseIP(proto), tp))
		return f[:rng.Intn(len(f)+1)], "truncated"
	case c == 12:
		o := baseIP(proto)
		o.totalLen = []int{1, 19, 21, 65535, 20 + len(o.options) + len(tp) + 7}[rng.Intn(5)]
		return link(g.ipv4(o, tp)), "bad-total-length"
	case c == 13:
		o := baseIP(proto)
		o.ihl = []int{0, 1, 4, 15, 6}[rng.Intn(5)]
		return link(g.ipv4(o, tp)), "bad-ihl"
	case c == 14:
		o := baseIP(proto)
		o.options = g.badIPOpts()
		return link(g.ipv4(o, tp)), "bad-ip-options"
	case c == 15:
		o := baseIP(proto)
		o.flagsfrags = []uint16{0x2000, 0x2001, 0x0001, 0x1fff, 0x6000}[rng.Intn(5)]
		return link(g.ipv4(o, tp)), "fragment"
	case c == 16:
		o := baseIP(proto)
		o.version = []int{0, 5, 6, 7, 15}[rng.Intn(5)]
		return link(g.ipv4(o, tp)), "ip-version"
	case c == 17:
		o := baseIP([]byte{0, 2, 17, 41, 47, 50, 132, 255, 6, 1}[rng.Intn(10)])
		return link(g.ipv4(o, tp)), "other-proto"
	case c == 18 || c == 19:
		// IPv4 in IPv4 (4 / 94): inner with or without the transport header
		inner := baseIP(proto)
		var innerB []byte
		switch rng.Intn(3) {
		case 0:
			innerB = g.ipv4(inner, tp)
		case 1:
			inner.proto = 17
			innerB = g.ipv4(inner, g.bytes(8))
		default:
			innerB = g.ipv4(inner, nil)
		}
		outer := baseIP([]byte{4, 94}[rng.Intn(2)])
		outer.src = [4]byte{172, 16, 0, byte(rng.Intn(256))}
		return link(g.ipv4(outer, innerB)), "ip-in-ip"
	case c == 20 && !vpn:
		inner := g.ipv4(baseIP(proto), tp)
		if rng.Intn(2) == 0 {
			inner = g.ipv4(baseIP(17), g.bytes(8))
		}
		return g.eth(0x6558, g.eth(0x0800, inner)), "eth-in-eth"
	case c == 21 && !vpn:
		return g.eth([]uint16{0x86dd, 0x8100, 0x0806, 0x88cc, 0x0801, 0x05dc, 0x0004}[rng.Intn(7)], g.ipv4(baseIP(proto), tp)), "other-ethertype"
	case c == 22 && kind == "tcp":
		return link(g.ipv4(baseIP(6), g.tcp(tcpOpt{doff: []int{0, 4, 15, 8}[rng.Intn(4)], flags: 0x12, sport: 80}, g.bytes(rng.Intn(8))))), "bad-data-offset"
	case c == 23 && kind == "tcp":
		return link(g.ipv4(baseIP(6), g.tcp(tcpOpt{doff: -1, flags: 0x12, options: g.badTCPOpts(), sport: 80}, nil))), "bad-tcp-options"
	case c == 24:
		return link(g.ipv4(baseIP(proto), tp[:rng.Intn(len(tp))])), "short-transport"
	case c == 25 && kind == "tcp":
		return link(g.ipv4(baseIP(6), g.tcp(tcpOpt{doff: -1, flags: 0x12, sport: uint16(rng.Intn(65536))}, nil))), "syn-ack"
	case c == 26:
		// IPv6 header where an IPv4 one is expected
		v6 := append([]byte{0x60 | byte(rng.Intn(16)), 0, 0, 0, 0, 20, proto, 64}, g.bytes(32)...)
		return link(append(v6, tp...)), "ipv6-bytes"
	case c == 27:
		return g.bytes(rng.Intn(80)), "random-bytes"
	case c == 28:
		return nil, "empty"
	case c == 29:
		// what the ring holds of a frame longer than the capture length: IPv4 total length beyond the data
		f := link(g.ipv4(baseIP(proto), append(tp, g.bytes(1500+rng.Intn(3000))...)))
		return f[:1518], "snap-cut"
	case c == 30:
		o := baseIP(proto)
		if rng.Intn(3) == 0 {
			o.totalLen = 0
		}
		return link(g.ipv4(o, append(tp, g.bytes(1500+rng.Intn(7500))...))), "jumbo"
	default:
		return link(g.ipv4(baseIP(proto), tp)), "valid"
	}
}

func procComponent(r *hx.Run) {
	r.Rule = "case = (processor configuration, link mode, history of 1..4 frames) through the real ScanMethod.ProcessPacketData with recover and a recording result sink; frames are built structurally (valid replies with IP/TCP options, payload, every flag set / ICMP type) and from each malformed family (truncation at every offset, length-field abuse, IHL/data-offset abuse, bad options, fragments, wrong version, IPv4-in-IPv4 via 4 and 94, Ethernet-in-Ethernet, other ethertypes/protocols, ARP with odd hlen/plen/htype/ptype); non-trivial class = (processor, link mode, set of frame families in the history)"
	g := &frameGen{r.Rng}
	n := 1500
	if r.Tier == "thorough" {
		n = 250000
	}
	cfgs := []string{
		"tcp:tcpsyn:synack:empty:0", "tcp:tcpsyn:synack:empty:1", "tcp:tcpfin:all:all:0", "tcp:tcpflags:all:all:1",
		"icmp:icmp:0", "icmp:icmp:1", "icmp:udp:0", "icmp:udp:1", "arp",
	}
	for i := 0; i < n; i++ {
		cfg := cfgs[r.Rng.Intn(len(cfgs))]
		kind := strings.Split(cfg, ":")[0]
		vpn := strings.HasSuffix(cfg, ":1")
		k := 1 + r.Rng.Intn(4)
		var frames, classes []string
		for j := 0; j < k; j++ {
			f, c := g.frame(kind, vpn)
			frames = append(frames, hx.Hex(f))
			classes = append(classes, c)
			r.Count(kind + "/" + c)
		}
		fs := strings.Join(frames, ",")
		obs := runProc(cfg, fs)
		for _, o := range strings.Split(obs, "|") {
			r.Count("out/" + strings.SplitN(o, ":", 2)[0])
		}
		r.Case(cfg+"/"+strings.Join(uniqSorted(classes), "+"), "proc", cfg, fs, obs)
	}
}

func uniqSorted(xs []string) []string {
	m := map[string]bool{}
	for _, x := range xs {
		m[x] = true
	}
	var out []string
	for x := range m {
		out = append(out, x)
	}
	sortStrings(out)
	return out
}
