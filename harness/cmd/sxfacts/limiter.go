package main

import (
	"fmt"
	"go/ast"
	"go/parser"
	"os"
	"path/filepath"
	"sort"
	"strings"
)

// genLimiter (C15): shape of the two rate-limit wrappers, of the two wiring sites, of the per-command
// plumbing of rateCount/rateWindow, and the ratelimit version of go.mod.  Plain data only; what it means
// is said by SxVerif.Limiter.wrapperEvents and decided in Props/C15.lean.
func genLimiter() {
	var sb strings.Builder
	sb.WriteString("import SxVerif.Model.Limiter\n\nnamespace SxVerif.Generated.Limiter\nopen SxVerif.Limiter\n\n")

	sb.WriteString("/-- `rateLimitReadWriter` (pkg/packet) -/\ndef packetWrapper : WrapperFacts :=\n")
	sb.WriteString(wrapperFacts("pkg/packet", "rateLimitReadWriter", "NewRateLimitReadWriter"))
	sb.WriteString("\n/-- `rateLimitScanner` (pkg/scan) -/\ndef scanWrapper : WrapperFacts :=\n")
	sb.WriteString(wrapperFacts("pkg/scan", "rateLimitScanner", "NewRateLimitScanner"))

	sb.WriteString("\n/-- `startPacketScanEngine` (command/root.go) -/\ndef packetWiring : WiringFacts :=\n")
	sb.WriteString(wiringFacts("command/root.go", "", "startPacketScanEngine", "packet.NewRateLimitReadWriter"))
	sb.WriteString("\n/-- `genericScanCmdOpts.newScanEngine` (command/config.go) -/\ndef scanWiring : WiringFacts :=\n")
	sb.WriteString(wiringFacts("command/config.go", "genericScanCmdOpts", "newScanEngine", "scan.NewRateLimitScanner"))

	// every other mention of the limiter library or of the wrapper constructors in non-test code
	sb.WriteString("\n/-- every call of `ratelimit.*` / `New RateLimit*` in non-test code: (file, function, callee) -/\n")
	sb.WriteString("def limiterCallSites : List (String × String × String) := [")
	sites := limiterCallSites()
	for i, s := range sites {
		if i > 0 {
			sb.WriteString(",")
		}
		sb.WriteString(fmt.Sprintf("\n  (%s, %s, %s)", leanStr(s[0]), leanStr(s[1]), leanStr(s[2])))
	}
	sb.WriteString("]\n")

	// plumbing: newPacketScanConfig(... withRateCount(x.rateCount), withRateWindow(x.rateWindow) ...)
	sb.WriteString("\n/-- every `newPacketScanConfig(…)` call of a command: (file, selector paths given to `withRateCount`, to `withRateWindow`) -/\n")
	sb.WriteString("def packetConfigCalls : List (String × List (List String) × List (List String)) := [")
	first := true
	files, _ := filepath.Glob(filepath.Join(repo, "command", "*.go"))
	sort.Strings(files)
	for _, path := range files {
		rel, _ := filepath.Rel(repo, path)
		if strings.HasSuffix(rel, "_test.go") || strings.HasSuffix(rel, "_verif.go") {
			continue
		}
		f := parseFile(rel)
		ast.Inspect(f, func(n ast.Node) bool {
			call, ok := n.(*ast.CallExpr)
			if !ok || src(call.Fun) != "newPacketScanConfig" {
				return true
			}
			var counts, windows [][]string
			for _, a := range call.Args {
				ac, ok := a.(*ast.CallExpr)
				if !ok || len(ac.Args) != 1 {
					continue
				}
				switch src(ac.Fun) {
				case "withRateCount":
					counts = append(counts, selectorPath(ac.Args[0]))
				case "withRateWindow":
					windows = append(windows, selectorPath(ac.Args[0]))
				}
			}
			if !first {
				sb.WriteString(",")
			}
			first = false
			sb.WriteString(fmt.Sprintf("\n  (%s, %s, %s)", leanStr(rel), leanPathList(counts), leanPathList(windows)))
			return true
		})
	}
	sb.WriteString("]\n")

	// the two option functions: `func withX(v T) opt { return func(c *packetScanConfig) { c.x = v } }`
	root := parseFile("command/root.go")
	optFacts := func(name string) string {
		fd := findFunc(root, "", name)
		if fd == nil {
			problem("command/root.go: %s not found", name)
			return "([], \"\", \"\", \"\")"
		}
		param, cparam, rhs := "", "", ""
		var lhs []string
		if len(fd.Type.Params.List) == 1 && len(fd.Type.Params.List[0].Names) == 1 {
			param = fd.Type.Params.List[0].Names[0].Name
		}
		ok := false
		if len(fd.Body.List) == 1 {
			if rs, isRet := fd.Body.List[0].(*ast.ReturnStmt); isRet && len(rs.Results) == 1 {
				if fl, isLit := rs.Results[0].(*ast.FuncLit); isLit && len(fl.Type.Params.List) == 1 &&
					len(fl.Type.Params.List[0].Names) == 1 && len(fl.Body.List) == 1 {
					cparam = fl.Type.Params.List[0].Names[0].Name
					if as, isAs := fl.Body.List[0].(*ast.AssignStmt); isAs && len(as.Lhs) == 1 && len(as.Rhs) == 1 && as.Tok.String() == "=" {
						lhs = selectorPath(as.Lhs[0])
						rhs = src(as.Rhs[0])
						ok = true
					}
				}
			}
		}
		if !ok {
			problem("command/root.go: %s is not `return func(c) { c.f = v }`: %q", name, src(fd.Body))
		}
		return fmt.Sprintf("(%s, %s, %s, %s)", leanStrList(lhs), leanStr(rhs), leanStr(cparam), leanStr(param))
	}
	sb.WriteString("\n/-- `withRateCount`: (assigned selector path, assigned expression, closure parameter, function parameter) -/\n")
	sb.WriteString("def withRateCountFacts : List String × String × String × String := " + optFacts("withRateCount") + "\n")
	sb.WriteString("\n/-- `withRateWindow`: likewise -/\n")
	sb.WriteString("def withRateWindowFacts : List String × String × String × String := " + optFacts("withRateWindow") + "\n")
	cfg := parseFile("command/config.go")
	var parseSites []string
	ast.Inspect(cfg, func(n ast.Node) bool {
		as, ok := n.(*ast.AssignStmt)
		if !ok || len(as.Rhs) != 1 {
			return true
		}
		if c, ok := as.Rhs[0].(*ast.CallExpr); ok && src(c.Fun) == "parseRateLimit" {
			var lhs [][]string
			for _, l := range as.Lhs {
				lhs = append(lhs, selectorPath(l))
			}
			var arg []string
			if len(c.Args) == 1 {
				arg = selectorPath(c.Args[0])
			}
			parseSites = append(parseSites, "("+leanPathList(lhs)+", "+leanStrList(arg)+")")
		}
		return true
	})
	sb.WriteString("\n/-- assignments from `parseRateLimit` in command/config.go: (selector paths assigned, argument path) -/\n")
	sb.WriteString("def parseSites : List (List (List String) × List String) := [" + strings.Join(parseSites, ", ") + "]\n")

	// go.mod: version of the limiter library
	ver := ""
	if data, err := os.ReadFile(filepath.Join(repo, "go.mod")); err == nil {
		for _, line := range strings.Split(string(data), "\n") {
			f := strings.Fields(line)
			if len(f) >= 2 && f[0] == "go.uber.org/ratelimit" {
				ver = f[1]
			}
			if len(f) >= 3 && f[0] == "require" && f[1] == "go.uber.org/ratelimit" {
				ver = f[2]
			}
			if len(f) >= 1 && f[0] == "replace" && strings.Contains(line, "go.uber.org/ratelimit") {
				problem("go.mod: go.uber.org/ratelimit is replaced: %q", strings.TrimSpace(line))
			}
		}
	}
	if ver == "" {
		problem("go.mod: no requirement on go.uber.org/ratelimit")
	}
	sb.WriteString(fmt.Sprintf("\n/-- version of go.uber.org/ratelimit required by go.mod (the model is of this version's limiter_atomic.go) -/\ndef ratelimitVersion : String := %s\n", leanStr(ver)))
	all["limiter.ratelimitVersion"] = ver

	sb.WriteString("\nend SxVerif.Generated.Limiter\n")
	writeLean("Limiter.lean", sb.String())
}

func selectorPath(e ast.Expr) []string {
	switch x := e.(type) {
	case *ast.Ident:
		return []string{x.Name}
	case *ast.SelectorExpr:
		p := selectorPath(x.X)
		if p == nil {
			return nil
		}
		return append(p, x.Sel.Name)
	}
	return nil
}

func leanPathList(ps [][]string) string {
	q := make([]string, len(ps))
	for i, p := range ps {
		q[i] = leanStrList(p)
	}
	return "[" + strings.Join(q, ", ") + "]"
}

func leanPairs(ps [][2]string) string {
	q := make([]string, len(ps))
	for i, p := range ps {
		q[i] = "(" + leanStr(p[0]) + ", " + leanStr(p[1]) + ")"
	}
	return "[" + strings.Join(q, ", ") + "]"
}

// pkgFiles: the non-test, non-hook Go files of a package directory
func pkgFiles(dir string) []*ast.File {
	paths, _ := filepath.Glob(filepath.Join(repo, dir, "*.go"))
	sort.Strings(paths)
	var out []*ast.File
	for _, p := range paths {
		if strings.HasSuffix(p, "_test.go") || strings.HasSuffix(p, "_verif.go") {
			continue
		}
		f, err := parser.ParseFile(fset, p, nil, 0)
		if err != nil {
			problem("%s: %v", p, err)
			continue
		}
		out = append(out, f)
	}
	return out
}

func countCalls(n ast.Node) int {
	c := 0
	ast.Inspect(n, func(x ast.Node) bool {
		if _, ok := x.(*ast.CallExpr); ok {
			c++
		}
		return true
	})
	return c
}

func callStmt(st ast.Stmt) string {
	kind, callee, args := "", []string(nil), []string(nil)
	var call *ast.CallExpr
	switch s := st.(type) {
	case *ast.ExprStmt:
		if c, ok := s.X.(*ast.CallExpr); ok {
			kind, call = "expr", c
		}
	case *ast.ReturnStmt:
		if len(s.Results) == 1 {
			if c, ok := s.Results[0].(*ast.CallExpr); ok {
				kind, call = "return", c
			}
		}
	}
	if call == nil {
		kind = fmt.Sprintf("%T", st)
		args = []string{src(st)}
	} else {
		callee = selectorPath(call.Fun)
		if callee == nil {
			kind = "call-of-expression"
			callee = []string{src(call.Fun)}
		}
		for _, a := range call.Args {
			args = append(args, src(a))
		}
		if call.Ellipsis.IsValid() {
			kind += "-variadic"
		}
	}
	return fmt.Sprintf("⟨%s, %s, %s⟩", leanStr(kind), leanStrList(callee), leanStrList(args))
}

// interruptibleTake recognises, at the head of stmts,
//
//	ch := make(chan struct{})
//	go func() { defer close(ch); <x.y.Take>() }()
//	select { case <-ctx.Done(): return nil, ctx.Err(); case <-ch: }
//
// (ctx a parameter of the method) and returns the selector path of the call made in the goroutine.
func interruptibleTake(stmts []ast.Stmt, params []string) ([]string, bool) {
	if len(stmts) < 3 {
		return nil, false
	}
	as, ok := stmts[0].(*ast.AssignStmt)
	if !ok || as.Tok.String() != ":=" || len(as.Lhs) != 1 || len(as.Rhs) != 1 || src(as.Rhs[0]) != "make(chan struct{})" {
		return nil, false
	}
	ch, ok := as.Lhs[0].(*ast.Ident)
	if !ok {
		return nil, false
	}
	g, ok := stmts[1].(*ast.GoStmt)
	if !ok || len(g.Call.Args) != 0 {
		return nil, false
	}
	fl, ok := g.Call.Fun.(*ast.FuncLit)
	if !ok || len(fl.Type.Params.List) != 0 || len(fl.Body.List) != 2 {
		return nil, false
	}
	d, ok := fl.Body.List[0].(*ast.DeferStmt)
	if !ok || src(d.Call) != "close("+ch.Name+")" {
		return nil, false
	}
	es, ok := fl.Body.List[1].(*ast.ExprStmt)
	if !ok {
		return nil, false
	}
	call, ok := es.X.(*ast.CallExpr)
	if !ok || len(call.Args) != 0 {
		return nil, false
	}
	callee := selectorPath(call.Fun)
	if callee == nil {
		return nil, false
	}
	sel, ok := stmts[2].(*ast.SelectStmt)
	if !ok || len(sel.Body.List) != 2 {
		return nil, false
	}
	sawCancel, sawDone := false, false
	for _, c := range sel.Body.List {
		cc := c.(*ast.CommClause)
		if cc.Comm == nil {
			return nil, false
		}
		comm := src(cc.Comm)
		switch {
		case comm == "<-"+ch.Name && len(cc.Body) == 0:
			sawDone = true
		case strings.HasPrefix(comm, "<-") && strings.HasSuffix(comm, ".Done()") && len(cc.Body) == 1:
			ctx := strings.TrimSuffix(strings.TrimPrefix(comm, "<-"), ".Done()")
			isParam := false
			for _, p := range params {
				isParam = isParam || p == ctx
			}
			if rs, ok := cc.Body[0].(*ast.ReturnStmt); ok && isParam && len(rs.Results) == 2 &&
				src(rs.Results[0]) == "nil" && src(rs.Results[1]) == ctx+".Err()" {
				sawCancel = true
			}
		}
	}
	if !sawCancel || !sawDone {
		return nil, false
	}
	return callee, true
}

func wrapperFacts(dir, typeName, ctorName string) string {
	files := pkgFiles(dir)
	var embedded []string
	var fields [][2]string
	foundType := false
	var methods []string
	var ctor *ast.FuncDecl
	for _, f := range files {
		for _, d := range f.Decls {
			switch x := d.(type) {
			case *ast.GenDecl:
				for _, sp := range x.Specs {
					ts, ok := sp.(*ast.TypeSpec)
					if !ok || ts.Name.Name != typeName {
						continue
					}
					st, ok := ts.Type.(*ast.StructType)
					if !ok {
						problem("%s: %s is not a struct", dir, typeName)
						continue
					}
					foundType = true
					for _, fl := range st.Fields.List {
						if len(fl.Names) == 0 {
							embedded = append(embedded, src(fl.Type))
						}
						for _, nm := range fl.Names {
							fields = append(fields, [2]string{nm.Name, src(fl.Type)})
						}
					}
				}
			case *ast.FuncDecl:
				if x.Recv == nil {
					if x.Name.Name == ctorName {
						ctor = x
					}
					continue
				}
				if len(x.Recv.List) != 1 || strings.TrimPrefix(src(x.Recv.List[0].Type), "*") != typeName {
					continue
				}
				recv := "_"
				if len(x.Recv.List[0].Names) == 1 {
					recv = x.Recv.List[0].Names[0].Name
				}
				var params []string
				for _, p := range x.Type.Params.List {
					if len(p.Names) == 0 {
						params = append(params, "_")
					}
					for _, nm := range p.Names {
						params = append(params, nm.Name)
					}
				}
				var body []string
				calls := 0
				if x.Body != nil {
					list := x.Body.List
					for i := 0; i < len(list); i++ {
						if callee, ok := interruptibleTake(list[i:], params); ok {
							// one statement of kind "expr-or-cancel": the call, made in a goroutine and awaited against
							// ctx.Done() (on cancellation the method returns `nil, ctx.Err()` and nothing after it runs)
							body = append(body, fmt.Sprintf("⟨%s, %s, %s⟩", leanStr("expr-or-cancel"), leanStrList(callee), leanStrList(nil)))
							calls++
							i += 2
							continue
						}
						body = append(body, callStmt(list[i]))
						calls += countCalls(list[i])
					}
				}
				methods = append(methods, fmt.Sprintf("{ name := %s, recv := %s, params := %s,\n      body := [%s],\n      callCount := %d }",
					leanStr(x.Name.Name), leanStr(recv), leanStrList(params), strings.Join(body, ", "), calls))
			}
		}
	}
	if !foundType {
		problem("%s: type %s not found", dir, typeName)
	}
	var ctorParams [][2]string
	ctorResult := ""
	var ctorInit [][2]string
	if ctor == nil {
		problem("%s: constructor %s not found", dir, ctorName)
	} else {
		for _, p := range ctor.Type.Params.List {
			for _, nm := range p.Names {
				ctorParams = append(ctorParams, [2]string{nm.Name, src(p.Type)})
			}
		}
		// body must be `return &T{f: e, …}`
		if len(ctor.Body.List) == 1 {
			if rs, ok := ctor.Body.List[0].(*ast.ReturnStmt); ok && len(rs.Results) == 1 {
				if ue, ok := rs.Results[0].(*ast.UnaryExpr); ok && ue.Op.String() == "&" {
					if cl, ok := ue.X.(*ast.CompositeLit); ok {
						ctorResult = src(cl.Type)
						for _, el := range cl.Elts {
							if kv, ok := el.(*ast.KeyValueExpr); ok {
								ctorInit = append(ctorInit, [2]string{src(kv.Key), src(kv.Value)})
							} else {
								ctorInit = append(ctorInit, [2]string{"", src(el)})
							}
						}
					}
				}
			}
		}
	}
	return fmt.Sprintf("  { typeName := %s,\n    embedded := %s,\n    fields := %s,\n    methods := [\n    %s],\n    ctorName := %s,\n    ctorParams := %s,\n    ctorResult := %s,\n    ctorInit := %s }\n",
		leanStr(typeName), leanStrList(embedded), leanPairs(fields), strings.Join(methods, ",\n    "),
		leanStr(ctorName), leanPairs(ctorParams), leanStr(ctorResult), leanPairs(ctorInit))
}

func wiringFacts(file, recv, fn, wrapperCtor string) string {
	f := parseFile(file)
	fd := findFunc(f, recv, fn)
	w := struct {
		target, wrapped, limiterCtor, targetInit, consumer, foundCtor string
		hasElse                                                       bool
		guarded, others                                               int
		guard, consumerArgs                                           []string
		limArgs                                                       []string // rendered (callee, args) pairs
		limPaths                                                      [][]string
	}{}
	if fd == nil {
		problem("%s: %s.%s not found", file, recv, fn)
	} else {
		var guardStmt *ast.IfStmt
		var guardedAssign *ast.AssignStmt
		for _, st := range fd.Body.List {
			is, ok := st.(*ast.IfStmt)
			if !ok {
				continue
			}
			has := false
			ast.Inspect(is, func(n ast.Node) bool {
				if c, ok := n.(*ast.CallExpr); ok && src(c.Fun) == wrapperCtor {
					has = true
				}
				return true
			})
			if has {
				if guardStmt != nil {
					problem("%s: %s: more than one guarded use of %s", file, fn, wrapperCtor)
				}
				guardStmt = is
			}
		}
		// uses of the wrapper constructor outside that `if`
		total := 0
		ast.Inspect(fd.Body, func(n ast.Node) bool {
			if c, ok := n.(*ast.CallExpr); ok && src(c.Fun) == wrapperCtor {
				total++
			}
			return true
		})
		if guardStmt == nil {
			problem("%s: %s: no top-level `if` installs %s (calls in the function: %d)", file, fn, wrapperCtor, total)
		} else {
			if total != 1 {
				problem("%s: %s: %d calls of %s", file, fn, total, wrapperCtor)
			}
			if guardStmt.Init != nil {
				problem("%s: %s: guard has an init statement %q", file, fn, src(guardStmt.Init))
			}
			if be, ok := guardStmt.Cond.(*ast.BinaryExpr); ok {
				w.guard = []string{src(be.X), be.Op.String(), src(be.Y)}
			} else {
				w.guard = []string{src(guardStmt.Cond)}
			}
			w.hasElse = guardStmt.Else != nil
			w.guarded = len(guardStmt.Body.List)
			if len(guardStmt.Body.List) >= 1 {
				if as, ok := guardStmt.Body.List[0].(*ast.AssignStmt); ok && len(as.Lhs) == 1 && len(as.Rhs) == 1 && as.Tok.String() == "=" {
					if c, ok := as.Rhs[0].(*ast.CallExpr); ok && src(c.Fun) == wrapperCtor && len(c.Args) == 2 {
						guardedAssign = as
						w.target = src(as.Lhs[0])
						w.foundCtor = wrapperCtor
						w.wrapped = src(c.Args[0])
						if lc, ok := c.Args[1].(*ast.CallExpr); ok {
							w.limiterCtor = src(lc.Fun)
							for _, a := range lc.Args {
								if ac, ok := a.(*ast.CallExpr); ok {
									var aa []string
									for _, x := range ac.Args {
										aa = append(aa, src(x))
									}
									w.limArgs = append(w.limArgs, "("+leanStr(src(ac.Fun))+", "+leanStrList(aa)+")")
									if len(ac.Args) == 1 {
										w.limPaths = append(w.limPaths, selectorPath(ac.Args[0]))
									} else {
										w.limPaths = append(w.limPaths, nil)
									}
								} else {
									w.limArgs = append(w.limArgs, "(\"\", "+leanStrList([]string{src(a)})+")")
									w.limPaths = append(w.limPaths, selectorPath(a))
								}
							}
							if lc.Ellipsis.IsValid() {
								w.limArgs = append(w.limArgs, "(\"...\", [])")
							}
						} else {
							w.limiterCtor = "expr:" + src(c.Args[1])
						}
					}
				}
			}
			if guardedAssign == nil {
				problem("%s: %s: guarded statement is not `x = %s(obj, limiter)`", file, fn, wrapperCtor)
			}
		}
		if w.target != "" {
			// initial value: a parameter of that name, or `var target T = e` / `target := e`
			for _, p := range fd.Type.Params.List {
				for _, nm := range p.Names {
					if nm.Name == w.target {
						w.targetInit = nm.Name
					}
				}
			}
			after := false
			var consumers []*ast.CallExpr
			for _, st := range fd.Body.List {
				if st == ast.Stmt(guardStmt) {
					after = true
					continue
				}
				if ds, ok := st.(*ast.DeclStmt); ok {
					if gd, ok := ds.Decl.(*ast.GenDecl); ok {
						for _, sp := range gd.Specs {
							if vs, ok := sp.(*ast.ValueSpec); ok {
								for i, nm := range vs.Names {
									if nm.Name == w.target {
										if after {
											problem("%s: %s: %s is redeclared after the guard", file, fn, w.target)
										}
										if i < len(vs.Values) {
											w.targetInit = src(vs.Values[i])
										} else {
											w.targetInit = "zero-value"
										}
									}
								}
							}
						}
					}
				}
				ast.Inspect(st, func(n ast.Node) bool {
					switch x := n.(type) {
					case *ast.AssignStmt:
						for _, l := range x.Lhs {
							if src(l) == w.target {
								if x.Tok.String() == ":=" && !after && w.targetInit == "" && len(x.Lhs) == 1 {
									w.targetInit = src(x.Rhs[0])
								} else {
									w.others++
								}
							}
						}
					case *ast.IncDecStmt:
						if src(x.X) == w.target {
							w.others++
						}
					case *ast.UnaryExpr:
						if x.Op.String() == "&" && src(x.X) == w.target {
							w.others++ // address taken: could be written through
						}
					case *ast.CallExpr:
						if after {
							for _, a := range x.Args {
								if src(a) == w.target {
									consumers = append(consumers, x)
								}
							}
						}
					}
					return true
				})
			}
			// assignments inside the guard other than the first statement
			for i, st := range guardStmt.Body.List {
				if i == 0 {
					continue
				}
				ast.Inspect(st, func(n ast.Node) bool {
					if x, ok := n.(*ast.AssignStmt); ok {
						for _, l := range x.Lhs {
							if src(l) == w.target {
								w.others++
							}
						}
					}
					return true
				})
			}
			if guardStmt.Else != nil {
				ast.Inspect(guardStmt.Else, func(n ast.Node) bool {
					if x, ok := n.(*ast.AssignStmt); ok {
						for _, l := range x.Lhs {
							if src(l) == w.target {
								w.others++
							}
						}
					}
					return true
				})
			}
			if len(consumers) != 1 {
				problem("%s: %s: %s is handed on by %d calls after the guard", file, fn, w.target, len(consumers))
			}
			if len(consumers) >= 1 {
				w.consumer = src(consumers[0].Fun)
				for _, a := range consumers[0].Args {
					w.consumerArgs = append(w.consumerArgs, src(a))
				}
			}
		}
	}
	name := fn
	if recv != "" {
		name = recv + "." + fn
	}
	return fmt.Sprintf("  { func := %s,\n    guard := %s,\n    guardHasElse := %s,\n    guardedStmts := %d,\n    target := %s,\n    wrapperCtor := %s,\n    wrapped := %s,\n    limiterCtor := %s,\n    limiterArgs := [%s],\n    limiterArgPaths := %s,\n    targetInit := %s,\n    otherAssignments := %d,\n    consumer := %s,\n    consumerArgs := %s }\n",
		leanStr(name), leanStrList(w.guard), leanBool(w.hasElse), w.guarded, leanStr(w.target), leanStr(w.foundCtor), leanStr(w.wrapped),
		leanStr(w.limiterCtor), strings.Join(w.limArgs, ", "), leanPathList(w.limPaths), leanStr(w.targetInit), w.others, leanStr(w.consumer), leanStrList(w.consumerArgs))
}

// limiterCallSites: every call whose callee starts with `ratelimit.` or is one of the wrapper constructors,
// in every non-test, non-hook file of the repository (vendor-free tree).
func limiterCallSites() [][3]string {
	var out [][3]string
	filepath.Walk(repo, func(path string, info os.FileInfo, err error) error {
		if err != nil {
			return nil
		}
		if info.IsDir() {
			if strings.HasPrefix(info.Name(), ".") && path != repo {
				return filepath.SkipDir
			}
			return nil
		}
		if !strings.HasSuffix(path, ".go") || strings.HasSuffix(path, "_test.go") || strings.HasSuffix(path, "_verif.go") {
			return nil
		}
		rel, _ := filepath.Rel(repo, path)
		f, perr := parser.ParseFile(fset, path, nil, 0)
		if perr != nil {
			problem("%s: %v", rel, perr)
			return nil
		}
		for _, d := range f.Decls {
			fd, ok := d.(*ast.FuncDecl)
			if !ok || fd.Body == nil {
				continue
			}
			ast.Inspect(fd.Body, func(n ast.Node) bool {
				c, ok := n.(*ast.CallExpr)
				if !ok {
					return true
				}
				callee := src(c.Fun)
				if strings.HasPrefix(callee, "ratelimit.") || strings.HasSuffix(callee, "NewRateLimitReadWriter") || strings.HasSuffix(callee, "NewRateLimitScanner") {
					out = append(out, [3]string{rel, fd.Name.Name, callee})
				}
				return true
			})
		}
		return nil
	})
	sort.Slice(out, func(i, j int) bool {
		if out[i][0] != out[j][0] {
			return out[i][0] < out[j][0]
		}
		if out[i][1] != out[j][1] {
			return out[i][1] < out[j][1]
		}
		return out[i][2] < out[j][2]
	})
	return out
}
