package main

// receiver.go facts: how long the receive loop pauses after an unknown read error.  The exit delay only
// works if that pause is small against it (a reply that arrives right after a read error must still be
// read before the scan exits), so the pause must be a CONSTANT and it is compared with the default exit delay.

import (
	"go/ast"
	"go/token"
	"strconv"
	"strings"
)

func genReceiver() {
	f := parseFile("pkg/packet/receiver.go")
	var sleeps []ast.Expr
	ast.Inspect(f, func(n ast.Node) bool {
		if c, ok := n.(*ast.CallExpr); ok {
			if sel, ok := c.Fun.(*ast.SelectorExpr); ok {
				if x, ok := sel.X.(*ast.Ident); ok && x.Name == "time" && (sel.Sel.Name == "Sleep" || sel.Sel.Name == "After" || sel.Sel.Name == "NewTimer" || sel.Sel.Name == "Tick") && len(c.Args) == 1 {
					sleeps = append(sleeps, c.Args[0])
				}
			}
		}
		return true
	})
	ns := int64(-1)
	if len(sleeps) == 1 {
		ns = constDurationNs(sleeps[0])
	}
	if ns < 0 {
		problem("pkg/packet/receiver.go: expected exactly one time.Sleep with a constant duration in the receive loop (found %d waits)", len(sleeps))
		ns = 0
	}
	// fingerprint of the receive loop: it leaves in exactly four places (ctx at the loop head, a broken socket,
	// ctx while reporting a read error, ctx while reporting a processing error) and comes round early in exactly two
	// (a temporary error; after the pause that follows an unknown error) — every frame read without an error is
	// handed to the processor, whatever its capture info says, and no count of failures ends the loop
	rets, conts, brks, procs := 0, 0, 0, 0
	if fd := findFunc(f, "receiver", "ReceivePackets"); fd != nil {
		ast.Inspect(fd.Body, func(n ast.Node) bool {
			switch x := n.(type) {
			case *ast.ReturnStmt:
				rets++
			case *ast.BranchStmt:
				if x.Tok == token.CONTINUE {
					conts++
				} else {
					brks++
				}
			case *ast.CallExpr:
				if sel, ok := x.Fun.(*ast.SelectorExpr); ok && sel.Sel.Name == "ProcessPacketData" {
					procs++
				}
			}
			return true
		})
	}
	// the function itself ends with `return errc`
	if rets != 5 || conts != 2 || brks != 0 || procs != 1 {
		problem("pkg/packet/receiver.go: receive loop has %d returns, %d continues, %d breaks/gotos, %d ProcessPacketData calls (expected 5, 2, 0, 1)", rets, conts, brks, procs)
	}
	var sb strings.Builder
	sb.WriteString("namespace SxVerif.Generated\n\n")
	sb.WriteString("/-- the pause of `ReceivePackets` after an unknown read error, in ns (a constant in the source) -/\n")
	sb.WriteString("def recvErrorPauseNs : Nat := " + strconv.FormatInt(ns, 10) + "\n\nend SxVerif.Generated\n")
	writeLean("Receiver.lean", sb.String())
	all["recvErrorPauseNs"] = ns
}

// constDurationNs evaluates `N * time.Unit`, `time.Unit * N`, `time.Unit` or `N` (ns); -1 if not constant
func constDurationNs(e ast.Expr) int64 {
	unit := func(e ast.Expr) int64 {
		if sel, ok := e.(*ast.SelectorExpr); ok {
			if x, ok := sel.X.(*ast.Ident); ok && x.Name == "time" {
				switch sel.Sel.Name {
				case "Nanosecond":
					return 1
				case "Microsecond":
					return 1e3
				case "Millisecond":
					return 1e6
				case "Second":
					return 1e9
				case "Minute":
					return 60e9
				}
			}
		}
		return -1
	}
	lit := func(e ast.Expr) int64 {
		if b, ok := e.(*ast.BasicLit); ok && b.Kind == token.INT {
			v, err := strconv.ParseInt(b.Value, 0, 64)
			if err == nil {
				return v
			}
		}
		return -1
	}
	switch v := e.(type) {
	case *ast.ParenExpr:
		return constDurationNs(v.X)
	case *ast.BinaryExpr:
		if v.Op == token.MUL {
			if a, b := lit(v.X), unit(v.Y); a >= 0 && b >= 0 {
				return a * b
			}
			if a, b := unit(v.X), lit(v.Y); a >= 0 && b >= 0 {
				return a * b
			}
		}
		return -1
	}
	if u := unit(e); u >= 0 {
		return u
	}
	return lit(e)
}
