package main

import (
	"fmt"
	"go/ast"
	"go/token"
	"math/big"
	"sort"
	"strconv"
	"strings"
)

type groupRow struct{ P, G, N int64 }

func intLit(e ast.Expr) (int64, bool) {
	switch v := e.(type) {
	case *ast.BasicLit:
		if v.Kind == token.INT {
			n, err := strconv.ParseInt(v.Value, 0, 64)
			return n, err == nil
		}
	case *ast.ParenExpr:
		return intLit(v.X)
	case *ast.UnaryExpr:
		if v.Op == token.SUB {
			n, ok := intLit(v.X)
			return -n, ok
		}
	case *ast.BinaryExpr:
		a, ok1 := intLit(v.X)
		b, ok2 := intLit(v.Y)
		if ok1 && ok2 {
			switch v.Op {
			case token.ADD:
				return a + b, true
			case token.SUB:
				return a - b, true
			case token.MUL:
				return a * b, true
			case token.SHL:
				return a << uint(b), true
			}
		}
	}
	return 0, false
}

func readCyclicGroups() []groupRow {
	f := parseFile("pkg/scan/range.go")
	var rows []groupRow
	found := false
	ast.Inspect(f, func(n ast.Node) bool {
		vs, ok := n.(*ast.ValueSpec)
		if !ok || len(vs.Names) != 1 || vs.Names[0].Name != "cyclicGroups" || len(vs.Values) != 1 {
			return true
		}
		cl, ok := vs.Values[0].(*ast.CompositeLit)
		if !ok {
			problem("cyclicGroups: not a composite literal")
			return false
		}
		found = true
		for _, el := range cl.Elts {
			row, ok := el.(*ast.CompositeLit)
			if !ok {
				problem("cyclicGroups: row is not a composite literal")
				continue
			}
			var r groupRow
			seen := map[string]bool{}
			for i, fe := range row.Elts {
				var key string
				var val ast.Expr
				if kv, ok := fe.(*ast.KeyValueExpr); ok {
					key = kv.Key.(*ast.Ident).Name
					val = kv.Value
				} else {
					key = []string{"P", "G", "N"}[i%3]
					val = fe
				}
				v, ok := intLit(val)
				if !ok {
					problem("cyclicGroups: non-literal field %s", key)
				}
				seen[key] = true
				switch key {
				case "P":
					r.P = v
				case "G":
					r.G = v
				case "N":
					r.N = v
				}
			}
			rows = append(rows, r)
		}
		return false
	})
	if !found {
		problem("cyclicGroups: variable not found in pkg/scan/range.go")
	}
	return rows
}

// ---- Pratt certificates (proposed here, checked by the Lean kernel) ----

type factor struct {
	Q int64
	A int
}

func factorize(n int64) []factor {
	var fs []factor
	for q := int64(2); q*q <= n; q++ {
		if n%q == 0 {
			a := 0
			for n%q == 0 {
				n /= q
				a++
			}
			fs = append(fs, factor{q, a})
		}
	}
	if n > 1 {
		fs = append(fs, factor{n, 1})
	}
	return fs
}

func isWitness(g, p int64, fs []factor) bool {
	P := big.NewInt(p)
	G := big.NewInt(g)
	one := big.NewInt(1)
	if new(big.Int).Exp(G, big.NewInt(p-1), P).Cmp(one) != 0 {
		return false
	}
	for _, f := range fs {
		if new(big.Int).Exp(G, big.NewInt((p-1)/f.Q), P).Cmp(one) == 0 {
			return false
		}
	}
	return true
}

type certEntry struct {
	P, G int64
	Fs   []factor
}

func genCyclicGroups() {
	rows := readCyclicGroups()
	all["cyclicGroups"] = rows

	// certificates: every row's P, and recursively every odd prime factor of (p-1)
	witness := map[int64]int64{}
	need := map[int64]bool{}
	var visit func(p int64)
	visit = func(p int64) {
		if p <= 2 || need[p] {
			return
		}
		need[p] = true
		for _, f := range factorize(p - 1) {
			visit(f.Q)
		}
	}
	for _, r := range rows {
		if r.P > 2 {
			witness[r.P] = r.G // the row's own G must be the witness: it is what the code multiplies by
			visit(r.P)
		}
	}
	var ps []int64
	for p := range need {
		ps = append(ps, p)
	}
	sort.Slice(ps, func(i, j int) bool { return ps[i] < ps[j] })
	var certs []certEntry
	for _, p := range ps {
		fs := factorize(p - 1)
		g, ok := witness[p]
		if !ok {
			for g = 2; g < p && g < 1000; g++ {
				if isWitness(g, p, fs) {
					break
				}
			}
		}
		certs = append(certs, certEntry{p, g, fs})
	}

	var sb strings.Builder
	sb.WriteString("import SxVerif.Model.RangeIter\n\nnamespace SxVerif.Generated\nopen SxVerif.RangeIter\n\n")
	sb.WriteString("/-- `cyclicGroups` of pkg/scan/range.go, row by row -/\n")
	sb.WriteString("def cyclicGroups : List Group := [\n")
	for i, r := range rows {
		sep := ","
		if i == len(rows)-1 {
			sep = ""
		}
		sb.WriteString(fmt.Sprintf("  ⟨%d, %d, %d⟩%s\n", r.P, r.G, r.N, sep))
	}
	sb.WriteString("]\n\n")
	sb.WriteString("/-- proposed Pratt certificates `(p, witness, factorisation of p-1)`, smallest prime first;\n    nothing here is trusted: `Proofs/Pratt.lean` checks every entry in the kernel -/\n")
	sb.WriteString("def prattCerts : List (Nat × Nat × List (Nat × Nat)) := [\n")
	for i, c := range certs {
		var fs []string
		for _, f := range c.Fs {
			fs = append(fs, fmt.Sprintf("(%d, %d)", f.Q, f.A))
		}
		sep := ","
		if i == len(certs)-1 {
			sep = ""
		}
		sb.WriteString(fmt.Sprintf("  (%d, %d, [%s])%s\n", c.P, c.G, strings.Join(fs, ", "), sep))
	}
	sb.WriteString("]\n\nend SxVerif.Generated\n")
	writeLean("CyclicGroups.lean", sb.String())
}
