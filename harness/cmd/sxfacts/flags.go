package main

import (
	"fmt"
	"go/ast"
	"go/token"
	"strconv"
	"strings"
)

// genTCPFlags: CLI flag name -> filler option -> PacketFiller field -> layers.TCP field, and the
// `switch` of parseIPFlags.  Emitted as plain tables; Props/C18 and Props/C05 decide facts about them.
func genTCPFlags() {
	cmdTCP := parseFile("command/tcp.go")
	// const cliTCPxxxPacketFlag = "xxx"
	consts := map[string]string{}
	ast.Inspect(cmdTCP, func(n ast.Node) bool {
		vs, ok := n.(*ast.ValueSpec)
		if !ok {
			return true
		}
		for i, nm := range vs.Names {
			if i < len(vs.Values) {
				if bl, ok := vs.Values[i].(*ast.BasicLit); ok && bl.Kind == token.STRING {
					s, _ := strconv.Unquote(bl.Value)
					consts[nm.Name] = s
				}
			}
		}
		return true
	})
	// var tcpPacketFlagOptions = map[string]tcp.PacketFillerOption{ key: tcp.WithXXX(), ... }
	type row struct{ name, option string }
	var rows []row
	found := false
	ast.Inspect(cmdTCP, func(n ast.Node) bool {
		vs, ok := n.(*ast.ValueSpec)
		if !ok || len(vs.Names) != 1 || vs.Names[0].Name != "tcpPacketFlagOptions" || len(vs.Values) != 1 {
			return true
		}
		cl, ok := vs.Values[0].(*ast.CompositeLit)
		if !ok {
			problem("tcpPacketFlagOptions: not a composite literal")
			return false
		}
		found = true
		for _, el := range cl.Elts {
			kv, ok := el.(*ast.KeyValueExpr)
			if !ok {
				problem("tcpPacketFlagOptions: element without key")
				continue
			}
			var name string
			switch k := kv.Key.(type) {
			case *ast.Ident:
				v, ok := consts[k.Name]
				if !ok {
					problem("tcpPacketFlagOptions: unknown constant %s", k.Name)
				}
				name = v
			case *ast.BasicLit:
				name, _ = strconv.Unquote(k.Value)
			default:
				problem("tcpPacketFlagOptions: key %q", src(kv.Key))
			}
			call, ok := kv.Value.(*ast.CallExpr)
			if !ok || len(call.Args) != 0 {
				problem("tcpPacketFlagOptions: value %q is not a call without arguments", src(kv.Value))
				continue
			}
			rows = append(rows, row{name, strings.TrimPrefix(src(call.Fun), "tcp.")})
		}
		return false
	})
	if !found {
		problem("tcpPacketFlagOptions: not found")
	}

	// pkg/scan/tcp/tcp.go: func WithXXX() PacketFillerOption { return func(f *PacketFiller) { f.XXX = true } }
	pkgTCP := parseFile("pkg/scan/tcp/tcp.go")
	optField := map[string]string{}
	for _, d := range pkgTCP.Decls {
		fd, ok := d.(*ast.FuncDecl)
		if !ok || fd.Recv != nil || !strings.HasPrefix(fd.Name.Name, "With") || len(fd.Body.List) != 1 {
			continue
		}
		ret, ok := fd.Body.List[0].(*ast.ReturnStmt)
		if !ok || len(ret.Results) != 1 {
			continue
		}
		fl, ok := ret.Results[0].(*ast.FuncLit)
		if !ok || len(fl.Body.List) != 1 {
			continue
		}
		as, ok := fl.Body.List[0].(*ast.AssignStmt)
		if !ok || len(as.Lhs) != 1 || len(as.Rhs) != 1 {
			continue
		}
		lhs := src(as.Lhs[0])
		if strings.HasPrefix(lhs, "f.") && src(as.Rhs[0]) == "true" {
			optField[fd.Name.Name] = strings.TrimPrefix(lhs, "f.")
		}
	}
	// Fill: tcp := &layers.TCP{ SYN: f.SYN, ... }
	hdrOf := map[string]string{} // filler field -> layers.TCP field
	if fd := findFunc(pkgTCP, "PacketFiller", "Fill"); fd == nil {
		problem("tcp.PacketFiller.Fill: not found")
	} else {
		ast.Inspect(fd.Body, func(n ast.Node) bool {
			cl, ok := n.(*ast.CompositeLit)
			if !ok || src(cl.Type) != "layers.TCP" {
				return true
			}
			for _, el := range cl.Elts {
				kv, ok := el.(*ast.KeyValueExpr)
				if !ok {
					continue
				}
				v := src(kv.Value)
				if strings.HasPrefix(v, "f.") {
					ff := strings.TrimPrefix(v, "f.")
					if prev, dup := hdrOf[ff]; dup {
						problem("tcp Fill: filler field %s feeds both %s and %s", ff, prev, src(kv.Key))
					}
					hdrOf[ff] = src(kv.Key)
				}
			}
			return false
		})
	}
	var sb strings.Builder
	sb.WriteString("namespace SxVerif.Generated\n\n")
	sb.WriteString("/-- `(CLI flag name, PacketFiller field set by its option, layers.TCP field that field feeds)` -/\n")
	sb.WriteString("def tcpFlagTable : List (String × String × String) := [\n")
	for i, r := range rows {
		f, ok := optField[r.option]
		if !ok {
			problem("tcp option %s: no recognisable `f.X = true` body", r.option)
		}
		h, ok := hdrOf[f]
		if !ok {
			problem("tcp Fill: filler field %q does not reach the header", f)
		}
		sep := ","
		if i == len(rows)-1 {
			sep = ""
		}
		sb.WriteString(fmt.Sprintf("  (%s, %s, %s)%s\n", leanStr(r.name), leanStr(f), leanStr(h), sep))
	}
	sb.WriteString("]\n\n")
	all["tcpFlagTable"] = rows

	// the fixed-flag subcommands: withTCPPacketFillerOptions(tcp.WithFIN(), ...) in command/tcp_<name>.go
	sb.WriteString("/-- `(subcommand, layers.TCP fields its filler options feed)` from `withTCPPacketFillerOptions(...)` in\n")
	sb.WriteString("    command/tcp_{syn,fin,null,xmas}.go -/\n")
	sb.WriteString("def tcpSubcommandFlags : List (String × List String) := [")
	for i, sub := range []string{"syn", "fin", "null", "xmas"} {
		f := parseFile("command/tcp_" + sub + ".go")
		var fields []string
		nCalls := 0
		ast.Inspect(f, func(n ast.Node) bool {
			call, ok := n.(*ast.CallExpr)
			if !ok || src(call.Fun) != "withTCPPacketFillerOptions" {
				return true
			}
			nCalls++
			for _, a := range call.Args {
				oc, ok := a.(*ast.CallExpr)
				if !ok || len(oc.Args) != 0 || !strings.HasPrefix(src(oc.Fun), "tcp.") {
					problem("tcp %s: filler option %q is not a call tcp.WithXXX()", sub, src(a))
					continue
				}
				ff, ok := optField[strings.TrimPrefix(src(oc.Fun), "tcp.")]
				if !ok {
					problem("tcp %s: option %s has no recognisable `f.X = true` body", sub, src(oc.Fun))
					continue
				}
				h, ok := hdrOf[ff]
				if !ok {
					problem("tcp %s: filler field %q does not reach the header", sub, ff)
					continue
				}
				fields = append(fields, h)
			}
			return true
		})
		if nCalls != 1 {
			problem("tcp %s: %d calls of withTCPPacketFillerOptions", sub, nCalls)
		}
		if i > 0 {
			sb.WriteString(", ")
		}
		sb.WriteString(fmt.Sprintf("(%s, %s)", leanStr(sub), leanStrList(fields)))
	}
	sb.WriteString("]\n\n")

	// parseIPFlags: switch flag { case "df": result |= uint8(layers.IPv4DontFragment) ... default: return 0, errIPFlags }
	cfg := parseFile("command/config.go")
	bitOf := map[string]int{"layers.IPv4EvilBit": 4, "layers.IPv4DontFragment": 2, "layers.IPv4MoreFragments": 1} // gopacket layers/ip4.go (modelled)
	type iprow struct {
		name string
		bit  int
	}
	var iprows []iprow
	if fd := findFunc(cfg, "", "parseIPFlags"); fd == nil {
		problem("parseIPFlags: not found")
	} else {
		nSwitch := 0
		ast.Inspect(fd.Body, func(n ast.Node) bool {
			sw, ok := n.(*ast.SwitchStmt)
			if !ok {
				return true
			}
			nSwitch++
			if src(sw.Tag) != "flag" {
				problem("parseIPFlags: switch on %q", src(sw.Tag))
			}
			for _, c := range sw.Body.List {
				cc := c.(*ast.CaseClause)
				if cc.List == nil {
					if len(cc.Body) != 1 || src(cc.Body[0]) != "return 0, errIPFlags" {
						problem("parseIPFlags: default branch %q", src(cc))
					}
					continue
				}
				for _, e := range cc.List {
					bl, ok := e.(*ast.BasicLit)
					if !ok {
						problem("parseIPFlags: case %q", src(e))
						continue
					}
					name, _ := strconv.Unquote(bl.Value)
					if len(cc.Body) != 1 {
						problem("parseIPFlags: case %s has %d statements", name, len(cc.Body))
						continue
					}
					st := src(cc.Body[0])
					const pre, post = "result |= uint8(", ")"
					if !strings.HasPrefix(st, pre) || !strings.HasSuffix(st, post) {
						problem("parseIPFlags: case %s body %q", name, st)
						continue
					}
					bit, ok := bitOf[st[len(pre):len(st)-len(post)]]
					if !ok {
						problem("parseIPFlags: case %s uses unknown constant in %q", name, st)
					}
					iprows = append(iprows, iprow{name, bit})
				}
			}
			return false
		})
		if nSwitch != 1 {
			problem("parseIPFlags: %d switch statements", nSwitch)
		}
		// the statements around the switch
		want := []string{
			"if len(inputFlags) == 0 { return }",
			`flags := strings.Split(strings.ToLower(inputFlags), ",")`,
		}
		for i, w := range want {
			if i >= len(fd.Body.List) || src(fd.Body.List[i]) != w {
				problem("parseIPFlags: statement %d is not %q", i, w)
			}
		}
	}
	sb.WriteString("/-- `switch` of `parseIPFlags`: `(name, bit in the 3-bit IPv4 flags field)` -/\n")
	sb.WriteString("def ipFlagTable : List (String × Nat) := [")
	for i, r := range iprows {
		if i > 0 {
			sb.WriteString(", ")
		}
		sb.WriteString(fmt.Sprintf("(%s, %d)", leanStr(r.name), r.bit))
	}
	sb.WriteString("]\n\nend SxVerif.Generated\n")
	writeLean("Flags.lean", sb.String())
}
