package main

import (
	"fmt"
	"go/ast"
	"go/token"
	"strings"
)

// snapLenFacts: the capture length ("snaplen", `maxPacketLength`) each BPF filter function returns next to its filter
// string, and that this number is what reaches the socket: `SetBPFFilter` hands it to `pcap.CompileBPFFilter` as the
// program's accept value, the ring is opened with gopacket's defaults (frame 4096, TPACKET_V3 blocks of 512 KiB: a
// frame of ≤ 1518 captured bytes is never cut further), and `ReadPacketData` returns the ring's bytes as they are.
// Returned as Lean text appended to Generated/Wiring.lean.
func snapLenFacts() string {
	type fnSpec struct{ lean, file, fn string }
	fns := []fnSpec{
		{".tcp", "pkg/scan/tcp/bpf.go", "BPFFilter"},
		{".synack", "pkg/scan/tcp/bpf.go", "SYNACKBPFFilter"},
		{".icmp", "pkg/scan/icmp/bpf.go", "BPFFilter"},
		{".arp", "pkg/scan/arp/bpf.go", "BPFFilter"},
	}
	intConst := func(f *ast.File, name string) (int64, bool) {
		var v int64
		found := 0
		for _, d := range f.Decls {
			gd, ok := d.(*ast.GenDecl)
			if !ok || gd.Tok != token.CONST {
				continue
			}
			for _, sp := range gd.Specs {
				vs := sp.(*ast.ValueSpec)
				for i, nm := range vs.Names {
					if nm.Name == name && i < len(vs.Values) {
						if x, ok := intLit(vs.Values[i]); ok {
							v = x
							found++
						}
					}
				}
			}
		}
		return v, found == 1
	}
	// the value of the second result of every return statement of fn, if they all agree
	var second func(f *ast.File, fn string, depth int) (int64, bool)
	second = func(f *ast.File, fn string, depth int) (int64, bool) {
		fd := findFunc(f, "", fn)
		if fd == nil || depth > 2 || fd.Type.Results == nil {
			return 0, false
		}
		// name of the second (named) result, if any
		var resNames []string
		for _, fl := range fd.Type.Results.List {
			for _, nm := range fl.Names {
				resNames = append(resNames, nm.Name)
			}
		}
		val, have, ok := int64(0), false, true
		note := func(v int64, good bool) {
			if !good || (have && v != val) {
				ok = false
			}
			val, have = v, true
		}
		inspectShallow(fd.Body, func(n ast.Node) bool {
			ret, isRet := n.(*ast.ReturnStmt)
			if !isRet {
				return true
			}
			if len(ret.Results) != 2 {
				ok = false
				return true
			}
			id, isID := ret.Results[1].(*ast.Ident)
			if !isID {
				if v, isLit := intLit(ret.Results[1]); isLit {
					note(v, true)
				} else {
					ok = false
				}
				return true
			}
			if v, isConst := intConst(f, id.Name); isConst {
				note(v, true)
				return true
			}
			// the named result, assigned exactly once by `a, <res> = <OtherFn>(…)` of the same package
			if len(resNames) == 2 && id.Name == resNames[1] {
				n := 0
				var callee string
				inspectShallow(fd.Body, func(x ast.Node) bool {
					as, isAs := x.(*ast.AssignStmt)
					if !isAs {
						return true
					}
					for i, l := range as.Lhs {
						if lid, isL := l.(*ast.Ident); isL && lid.Name == id.Name {
							n++
							if len(as.Lhs) == 2 && i == 1 && len(as.Rhs) == 1 {
								if c, isCall := as.Rhs[0].(*ast.CallExpr); isCall {
									if cid, isCid := c.Fun.(*ast.Ident); isCid {
										callee = cid.Name
									}
								}
							}
						}
					}
					return true
				})
				if n == 1 && callee != "" {
					v, good := second(f, callee, depth+1)
					note(v, good)
					return true
				}
			}
			ok = false
			return true
		})
		return val, ok && have
	}
	var entries []string
	table := map[string]int64{}
	for _, s := range fns {
		f := parseFile(s.file)
		v, ok := second(f, s.fn, 0)
		if !ok {
			problem("snaplen: %s %s: the capture length it returns is not a constant", s.file, s.fn)
			v = 0
		}
		entries = append(entries, fmt.Sprintf("(%s, %d)", s.lean, v))
		table[strings.TrimPrefix(s.lean, ".")] = v
	}
	all["wiring.snapLens"] = table

	reaches := true
	af := parseFile("pkg/packet/afpacket/readwriter.go")
	if fd := findFunc(af, "Source", "SetBPFFilter"); fd == nil || len(fd.Type.Params.List) != 2 ||
		len(fd.Type.Params.List[1].Names) != 1 {
		problem("snaplen: afpacket.Source.SetBPFFilter(filter, maxPacketLength) not found")
		reaches = false
	} else {
		lenParam := fd.Type.Params.List[1].Names[0].Name
		n := 0
		ast.Inspect(fd.Body, func(x ast.Node) bool {
			if call, ok := x.(*ast.CallExpr); ok && src(call.Fun) == "pcap.CompileBPFFilter" {
				n++
				if len(call.Args) != 3 || src(call.Args[1]) != lenParam {
					problem("snaplen: SetBPFFilter compiles with capture length %q", src(call))
					reaches = false
				}
			}
			return true
		})
		if n != 1 {
			reaches = false
		}
	}
	// the ring: gopacket defaults only
	if fd := findFunc(af, "", "NewPacketSource"); fd == nil {
		reaches = false
	} else {
		n := 0
		ast.Inspect(fd.Body, func(x ast.Node) bool {
			if call, ok := x.(*ast.CallExpr); ok && strings.HasSuffix(src(call.Fun), ".NewTPacket") {
				n++
				// ring geometry options (frame / block size, number of blocks) would change what a captured frame
				// can hold; a poll timeout does not
				okOpts := len(call.Args) >= 2 && src(call.Args[0]) == "afp.SocketRaw" && strings.HasPrefix(src(call.Args[1]), "afp.OptInterface(")
				for _, a := range call.Args[2:] {
					if !strings.HasPrefix(src(a), "afp.OptPollTimeout(") {
						okOpts = false
					}
				}
				if !okOpts {
					problem("snaplen: capture ring opened with non-default options %q", src(call))
					reaches = false
				}
			}
			return true
		})
		if n != 1 {
			problem("snaplen: %d NewTPacket calls", n)
			reaches = false
		}
	}
	// ReadPacketData: the ring's bytes as they are — either every frame, or every frame that carried no VLAN tag
	// (`for { data, ci, err := s.handle.ZeroCopyReadPacketData(); if err == nil && vlanTagged(&ci) { continue };
	// return data, &ci, err }`, vlanTagged = "ci.AncillaryData holds an afp.AncillaryVLAN")
	dropsTagged := false
	userFilter := false // every frame read is put through the program of the socket filter once more
	readOK := false
	serialised := false // reads are serialised with Close and report io.EOF afterwards
	copies := false     // the frame is copied out of the ring
	if fd := findFunc(af, "Source", "ReadPacketData"); fd != nil {
		body := fd.Body.List
		if len(body) == 1 {
			if loop, ok := body[0].(*ast.ForStmt); ok && loop.Init == nil && loop.Cond == nil && loop.Post == nil {
				var rest []ast.Stmt
				for _, st := range loop.Body.List {
					switch src(st) {
					case "if err == nil && vlanTagged(&ci) { continue }":
						dropsTagged = true
					case "if err == afp.ErrTimeout { continue }":
						// a poll that timed out delivered nothing
					case "filter := s.filter":
						// read under the lock: the program SetBPFFilter stored
					case "if err == nil && filter != nil { if n, ferr := filter.Run(data); ferr == nil && n == 0 { continue } }":
						// the socket filter's own program, run on the frame that was read: a frame it rejects is skipped
						userFilter = true
					case "s.mu.Lock()", "s.mu.Unlock()":
						serialised = true
					case "if s.closed { s.mu.Unlock() return nil, nil, io.EOF }":
						serialised = true
					default:
						rest = append(rest, st)
					}
				}
				body = rest
			}
		}
		if len(body) == 2 && strings.HasPrefix(src(body[0]), "data, ci, err := ") && src(body[1]) == "return data, &ci, err" {
			switch {
			case strings.HasSuffix(src(body[0]), ".handle.ZeroCopyReadPacketData()"):
				readOK = true
			case strings.HasSuffix(src(body[0]), ".handle.ReadPacketData()"):
				readOK, copies = true, true
			}
		}
		if serialised {
			// Close must take the same lock, mark the source closed and only then unmap the ring
			cl := findFunc(af, "Source", "Close")
			want := []string{"s.mu.Lock()", "defer s.mu.Unlock()", "s.closed = true", "s.handle.Close()"}
			if cl == nil || len(cl.Body.List) != len(want) {
				serialised = false
			} else {
				for i, st := range cl.Body.List {
					if src(st) != want[i] {
						serialised = false
					}
				}
			}
			if !serialised {
				problem("snaplen: afpacket.Source.ReadPacketData takes a lock that Close does not use as expected")
			}
		}
		// a zero-copy frame is processed after the read has returned: without the copy, serialising the read
		// alone would not keep Close from unmapping memory that is still in use
		if serialised && !copies {
			problem("snaplen: reads are serialised with Close but hand out ring memory (zero copy)")
		}
	}
	if dropsTagged {
		// vlanTagged must be exactly the test for an AncillaryVLAN entry
		vt := findFunc(af, "", "vlanTagged")
		want := []string{
			"for _, a := range ci.AncillaryData { if _, ok := a.(afp.AncillaryVLAN); ok { return true } }",
			"return false",
		}
		if vt == nil || len(vt.Body.List) != len(want) || src(vt.Body.List[0]) != want[0] || src(vt.Body.List[1]) != want[1] {
			problem("snaplen: afpacket.vlanTagged is not the test for an afp.AncillaryVLAN entry")
			dropsTagged = false
		}
	}
	if !readOK {
		problem("snaplen: afpacket.Source.ReadPacketData does not return the ring's bytes as they are")
		reaches = false
	}
	// … and that program is the one handed to the socket: SetBPFFilter disassembles the raw instructions it attaches,
	// builds the VM from them and stores it (under the lock) after the attach succeeded
	if userFilter {
		fd := findFunc(af, "Source", "SetBPFFilter")
		body := ""
		if fd != nil {
			body = src(fd.Body)
		}
		for _, want := range []string{"s.handle.SetBPF(bpfIns)", "bpf.Disassemble(bpfIns)", "bpf.NewVM(ins)", "s.filter = vm"} {
			if !strings.Contains(body, want) {
				problem("snaplen: frames are filtered in user space but SetBPFFilter lacks %q", want)
				userFilter = false
			}
		}
		if strings.Index(body, "s.handle.SetBPF(bpfIns)") > strings.Index(body, "s.filter = vm") {
			userFilter = false
		}
	}
	all["wiring.userSpaceFilter"] = userFilter
	all["wiring.dropsVlanTagged"] = dropsTagged
	all["wiring.readSerialisedWithClose"] = serialised
	all["wiring.readCopiesFrame"] = copies
	all["wiring.snaplenReachesSocket"] = reaches

	var sb strings.Builder
	sb.WriteString("/-- the capture length (`maxPacketLength`) each filter function returns next to its filter string -/\n")
	sb.WriteString("def snapLens : List (SxVerif.Bpf.FilterFn × Nat) := [" + strings.Join(entries, ", ") + "]\n\n")
	sb.WriteString("/-- `SetBPFFilter` compiles the program with that length as its accept value, the ring is opened with gopacket's\n    default geometry and `ReadPacketData` returns the ring's bytes unchanged: an accepted frame reaches the processor\n    cut to exactly that many bytes -/\n")
	sb.WriteString("def snaplenReachesSocket : Bool := " + leanBool(reaches) + "\n\n")
	sb.WriteString("/-- `afpacket.Source.ReadPacketData` skips every frame the kernel delivered with a VLAN tag beside it\n    (`afpacket.AncillaryVLAN` in the capture info) -/\n")
	sb.WriteString("def dropsVlanTagged : Bool := " + leanBool(dropsTagged) + "\n\n")
	sb.WriteString("/-- `afpacket.Source.ReadPacketData` and `Close` take one mutex, `Close` marks the source closed before it unmaps\n    the ring, a read after that reports io.EOF, and the frame handed out is a copy (so nothing touches the ring once\n    `Close` has returned: the receiver goroutine outlives the engine run that started it) -/\n")
	sb.WriteString("def readSafeAgainstClose : Bool := " + leanBool(serialised && copies) + "\n\n")
	sb.WriteString("/-- every frame `afpacket.Source.ReadPacketData` hands out has been put through the program of the socket filter in\n    user space as well (frames that were queued between the creation of the socket and the attach of the filter never saw it) -/\n")
	sb.WriteString("def userSpaceFilter : Bool := " + leanBool(userFilter) + "\n\n")
	// the two bodies as sequences of lock-protocol steps, in source order (Model/CaptureSource.lean gives them meaning)
	opOf := func(st ast.Stmt) string {
		t := src(st)
		switch {
		case t == "s.mu.Lock()":
			return ".lock"
		case t == "s.mu.Unlock()":
			return ".unlock"
		case t == "defer s.mu.Unlock()":
			return ".deferUnlock"
		case t == "s.closed = true":
			return ".setClosed"
		case t == "s.handle.Close()":
			return ".unmap"
		case t == "if s.closed { s.mu.Unlock() return nil, nil, io.EOF }":
			return ".eofIfClosed"
		case strings.HasSuffix(t, ":= s.handle.ReadPacketData()"):
			return ".readCopy"
		case strings.HasSuffix(t, ":= s.handle.ZeroCopyReadPacketData()"):
			return ".readZeroCopy"
		case strings.Contains(t, "s.handle") || strings.Contains(t, "s.mu") || strings.Contains(t, "s.closed"):
			return ".other"
		}
		return ""
	}
	seq := func(list []ast.Stmt) string {
		var ops []string
		for _, st := range list {
			if o := opOf(st); o != "" {
				ops = append(ops, o)
			}
		}
		return "[" + strings.Join(ops, ", ") + "]"
	}
	readSeq, closeSeq := "[]", "[]"
	if fd := findFunc(af, "Source", "ReadPacketData"); fd != nil && len(fd.Body.List) == 1 {
		if loop, ok := fd.Body.List[0].(*ast.ForStmt); ok {
			readSeq = seq(loop.Body.List)
		} else {
			readSeq = seq(fd.Body.List)
		}
	} else if fd != nil {
		readSeq = seq(fd.Body.List)
	}
	if fd := findFunc(af, "Source", "Close"); fd != nil {
		closeSeq = seq(fd.Body.List)
	}
	sb.WriteString("/-- `afpacket.Source.ReadPacketData` (one iteration of its loop) and `Close` as lock-protocol steps, in source order -/\n")
	sb.WriteString("def sourceDesc : SxVerif.CaptureSource.Desc := { read := " + readSeq + ", close := " + closeSeq + " }\n\n")
	return sb.String()
}
