package main

import (
	"go/ast"
	"os"
	"path/filepath"
	"sort"
	"strings"
)

// genArpCache (C11): who writes to an arp.Cache.  Every call `<x>.Put(a, b)` (two arguments: the result
// channel's Put has one) and `<x>.Delete(a)` in non-test files of command/ and pkg/, as "file:function".
// The cache is immutable during the scan iff the only writer is FillCache (called from parseARPCache before
// the engine starts).
func genArpCache() {
	var puts, deletes []string
	for _, dir := range []string{"command", "pkg"} {
		filepath.Walk(filepath.Join(repo, dir), func(path string, info os.FileInfo, err error) error {
			if err != nil || info.IsDir() || !strings.HasSuffix(path, ".go") || strings.HasSuffix(path, "_test.go") ||
				strings.HasSuffix(path, "_verif.go") {
				return nil
			}
			rel, _ := filepath.Rel(repo, path)
			f := parseFile(rel)
			for _, d := range f.Decls {
				fd, ok := d.(*ast.FuncDecl)
				if !ok || fd.Body == nil {
					continue
				}
				// the methods of Cache itself are the primitive, not a caller
				if fd.Recv != nil && strings.TrimPrefix(src(fd.Recv.List[0].Type), "*") == "Cache" {
					continue
				}
				ast.Inspect(fd.Body, func(n ast.Node) bool {
					c, ok := n.(*ast.CallExpr)
					if !ok {
						return true
					}
					sel, ok := c.Fun.(*ast.SelectorExpr)
					if !ok {
						return true
					}
					if sel.Sel.Name == "Put" && len(c.Args) == 2 {
						puts = append(puts, rel+":"+fd.Name.Name)
					}
					if sel.Sel.Name == "Delete" && len(c.Args) == 1 {
						deletes = append(deletes, rel+":"+fd.Name.Name)
					}
					return true
				})
			}
			return nil
		})
	}
	sort.Strings(puts)
	sort.Strings(deletes)
	// where FillCache is called from
	var fillers []string
	cfg := parseFile("command/config.go")
	for _, d := range cfg.Decls {
		if fd, ok := d.(*ast.FuncDecl); ok && fd.Body != nil {
			ast.Inspect(fd.Body, func(n ast.Node) bool {
				if c, ok := n.(*ast.CallExpr); ok && src(c.Fun) == "arp.FillCache" {
					fillers = append(fillers, fd.Name.Name)
				}
				return true
			})
		}
	}
	var sb strings.Builder
	sb.WriteString("namespace SxVerif.Generated\n\n")
	sb.WriteString("/-- callers of a two-argument `.Put(…)` outside the Cache type (file:function) -/\n")
	sb.WriteString("def cachePutCallers : List String := " + leanStrList(puts) + "\n\n")
	sb.WriteString("/-- callers of a one-argument `.Delete(…)` outside the Cache type -/\n")
	sb.WriteString("def cacheDeleteCallers : List String := " + leanStrList(deletes) + "\n\n")
	sb.WriteString("/-- functions of command/config.go that call `arp.FillCache` -/\n")
	sb.WriteString("def fillCacheCallers : List String := " + leanStrList(fillers) + "\n\n")
	sb.WriteString("end SxVerif.Generated\n")
	writeLean("ArpCacheFacts.lean", sb.String())
	all["arpcache.putCallers"] = puts
	all["arpcache.deleteCallers"] = deletes
	all["arpcache.fillCacheCallers"] = fillers
}
