package main

// genHTTPProbe: wiring facts of pkg/scan/elastic/elastic.go and pkg/scan/docker/docker.go for C10
// (Generated/HttpProbe.lean).  What is reported is structural and independent of the names of locals,
// parameters and receivers: which calls a function makes in which order, whether an error of a call is
// fatal (`if …; err != nil { return }`) or dropped (`x, _ := …`), where the context deadline is set, what
// the record literal is filled from, and the settings of the HTTP client.

import (
	"fmt"
	"go/ast"
	"go/token"
	"sort"
	"strings"
)

type hpScope struct {
	names  map[string]string   // receiver / parameters -> placeholder
	locals map[string]ast.Expr // local defined once by `x := expr`
	calls  map[string]string   // local defined by a multi-value call -> "call:<Name>#<index>"
}

func hpLastName(e ast.Expr) string {
	switch x := e.(type) {
	case *ast.SelectorExpr:
		return x.Sel.Name
	case *ast.Ident:
		return x.Name
	}
	return ""
}

func newHPScope(fd *ast.FuncDecl) *hpScope {
	sc := &hpScope{names: map[string]string{}, locals: map[string]ast.Expr{}, calls: map[string]string{}}
	if fd.Recv != nil {
		for _, f := range fd.Recv.List {
			for _, n := range f.Names {
				sc.names[n.Name] = "recv"
			}
		}
	}
	i := 0
	for _, f := range fd.Type.Params.List {
		for _, n := range f.Names {
			sc.names[n.Name] = fmt.Sprintf("arg%d", i)
			i++
		}
	}
	record := func(as *ast.AssignStmt) {
		if len(as.Lhs) == 1 && len(as.Rhs) == 1 && as.Tok == token.DEFINE {
			if id, ok := as.Lhs[0].(*ast.Ident); ok {
				if _, dup := sc.locals[id.Name]; dup {
					problem("%s: local %s defined twice", fd.Name.Name, id.Name)
				}
				sc.locals[id.Name] = as.Rhs[0]
			}
			return
		}
		if len(as.Rhs) == 1 {
			if call, ok := as.Rhs[0].(*ast.CallExpr); ok {
				for k, l := range as.Lhs {
					if id, ok := l.(*ast.Ident); ok && id.Name != "_" && id.Name != "err" {
						sc.calls[id.Name] = fmt.Sprintf("call:%s#%d", hpLastName(call.Fun), k)
					}
				}
			}
		}
	}
	ast.Inspect(fd.Body, func(n ast.Node) bool {
		if as, ok := n.(*ast.AssignStmt); ok {
			record(as)
		}
		return true
	})
	return sc
}

func (sc *hpScope) resolve(e ast.Expr, depth int) string {
	if depth > 8 {
		return src(e)
	}
	switch x := e.(type) {
	case *ast.Ident:
		if p, ok := sc.names[x.Name]; ok {
			return p
		}
		if c, ok := sc.calls[x.Name]; ok {
			return c
		}
		if d, ok := sc.locals[x.Name]; ok {
			return sc.resolve(d, depth+1)
		}
		return x.Name
	case *ast.SelectorExpr:
		return sc.resolve(x.X, depth+1) + "." + x.Sel.Name
	case *ast.CallExpr:
		var args []string
		for _, a := range x.Args {
			args = append(args, sc.resolve(a, depth+1))
		}
		return sc.resolve(x.Fun, depth+1) + "(" + strings.Join(args, ", ") + ")"
	case *ast.BinaryExpr:
		return sc.resolve(x.X, depth+1) + " " + x.Op.String() + " " + sc.resolve(x.Y, depth+1)
	case *ast.BasicLit:
		return x.Value
	case *ast.ParenExpr:
		return sc.resolve(x.X, depth+1)
	case *ast.UnaryExpr:
		return x.Op.String() + sc.resolve(x.X, depth+1)
	case *ast.CompositeLit:
		return src(x.Type) + "{…}"
	}
	return src(e)
}

// calls of interest made by the top-level statements of fd, in order, with the fate of their error
func hpCalls(fd *ast.FuncDecl, watch map[string]bool) [][2]string {
	var out [][2]string
	find := func(n ast.Node) string {
		name := ""
		ast.Inspect(n, func(m ast.Node) bool {
			if c, ok := m.(*ast.CallExpr); ok && name == "" && watch[hpLastName(c.Fun)] {
				name = hpLastName(c.Fun)
			}
			return true
		})
		return name
	}
	for _, st := range fd.Body.List {
		switch s := st.(type) {
		case *ast.IfStmt:
			if s.Init == nil {
				if n := find(s); n != "" {
					problem("%s: call %s inside an if without init", fd.Name.Name, n)
				}
				continue
			}
			n := find(s.Init)
			if n == "" {
				continue
			}
			fatal := src(s.Cond) == "err != nil" && s.Else == nil && len(s.Body.List) == 1
			if fatal {
				_, fatal = s.Body.List[0].(*ast.ReturnStmt)
			}
			if !fatal {
				problem("%s: call %s in an if of unknown shape: %s", fd.Name.Name, n, src(s.Cond))
				continue
			}
			out = append(out, [2]string{n, "fatal"})
		case *ast.AssignStmt:
			n := find(s)
			if n == "" {
				continue
			}
			if len(s.Lhs) == 2 && src(s.Lhs[1]) == "_" {
				out = append(out, [2]string{n, "dropped"})
			} else {
				problem("%s: call %s assigned in an unknown way: %s", fd.Name.Name, n, src(s))
			}
		case *ast.ExprStmt:
			if n := find(s); n != "" {
				out = append(out, [2]string{n, "none"})
			}
		case *ast.DeferStmt, *ast.DeclStmt, *ast.ReturnStmt:
			if n := find(s); n != "" {
				problem("%s: call %s in a %T", fd.Name.Name, n, s)
			}
		default:
			if n := find(s); n != "" {
				problem("%s: call %s in a %T", fd.Name.Name, n, s)
			}
		}
	}
	return out
}

// names of the watched calls anywhere in fd, in source order
func hpCallOrder(fd *ast.FuncDecl, watch map[string]bool) []string {
	var out []string
	ast.Inspect(fd.Body, func(n ast.Node) bool {
		if c, ok := n.(*ast.CallExpr); ok && watch[hpLastName(c.Fun)] {
			out = append(out, hpLastName(c.Fun))
		}
		return true
	})
	return out
}

// `ctx, cancel := context.WithTimeout(<ctx param>, <recv>.…dataTimeout)` as the FIRST statement that is not
// a declaration; returns the resolved duration argument
func hpDeadline(fd *ast.FuncDecl, sc *hpScope) string {
	for _, st := range fd.Body.List {
		if _, ok := st.(*ast.DeclStmt); ok {
			continue
		}
		as, ok := st.(*ast.AssignStmt)
		if !ok || len(as.Rhs) != 1 || len(as.Lhs) != 2 {
			return ""
		}
		call, ok := as.Rhs[0].(*ast.CallExpr)
		if !ok || src(call.Fun) != "context.WithTimeout" || len(call.Args) != 2 {
			return ""
		}
		// the new context must replace the parameter for the rest of the function
		if sc.names[src(as.Lhs[0])] == "" || sc.names[src(as.Lhs[0])] != sc.names[src(call.Args[0])] {
			problem("%s: WithTimeout result does not shadow the context parameter", fd.Name.Name)
		}
		return sc.resolve(call.Args[1], 0)
	}
	return ""
}

func hpLiteral(fd *ast.FuncDecl, typ string, sc *hpScope) [][2]string {
	var out [][2]string
	found := false
	var walk func(prefix string, cl *ast.CompositeLit)
	walk = func(prefix string, cl *ast.CompositeLit) {
		for _, el := range cl.Elts {
			kv, ok := el.(*ast.KeyValueExpr)
			if !ok {
				problem("%s: %s literal without keys", fd.Name.Name, typ)
				continue
			}
			v := kv.Value
			if u, ok := v.(*ast.UnaryExpr); ok && u.Op == token.AND {
				v = u.X
			}
			if inner, ok := v.(*ast.CompositeLit); ok {
				walk(prefix+src(kv.Key)+".", inner)
				continue
			}
			if fl, ok := v.(*ast.FuncLit); ok {
				body := []string{}
				for _, st := range fl.Body.List {
					body = append(body, src(st))
				}
				out = append(out, [2]string{prefix + src(kv.Key), "func{" + strings.Join(body, "; ") + "}"})
				continue
			}
			out = append(out, [2]string{prefix + src(kv.Key), sc.resolve(v, 0)})
		}
	}
	ast.Inspect(fd.Body, func(n ast.Node) bool {
		if cl, ok := n.(*ast.CompositeLit); ok && src(cl.Type) == typ {
			if found {
				problem("%s: more than one %s literal", fd.Name.Name, typ)
				return false
			}
			found = true
			walk("", cl)
			return false
		}
		return true
	})
	if !found {
		problem("%s: no %s literal", fd.Name.Name, typ)
	}
	sort.Slice(out, func(i, j int) bool { return out[i][0] < out[j][0] })
	return out
}

func genHTTPProbe() {
	var sb strings.Builder
	sb.WriteString("namespace SxVerif.Generated.HttpProbe\n\n")
	def := func(name, typ, val, doc string) {
		sb.WriteString(fmt.Sprintf("/-- %s -/\ndef %s : %s := %s\n\n", doc, name, typ, val))
		all["httpprobe."+name] = val
	}
	need := func(f *ast.File, recv, name, file string) *ast.FuncDecl {
		fd := findFunc(f, recv, name)
		if fd == nil {
			problem("%s: func (%s) %s not found", file, recv, name)
		}
		return fd
	}
	constNs := func(f *ast.File, name string) string {
		v := "0"
		ast.Inspect(f, func(n ast.Node) bool {
			if vs, ok := n.(*ast.ValueSpec); ok {
				for i, id := range vs.Names {
					if id.Name == name && i < len(vs.Values) {
						v = src(vs.Values[i])
					}
				}
			}
			return true
		})
		return v
	}

	// ---------------- elastic ----------------
	ef := parseFile("pkg/scan/elastic/elastic.go")
	if fd := need(ef, "Scanner", "Scan", "elastic.go"); fd != nil {
		sc := newHPScope(fd)
		def("elasticScanCalls", "List (String × String)", leanPairs(hpCalls(fd, map[string]bool{"GetInfo": true, "GetIndexes": true})),
			"requests made by elastic `Scanner.Scan`, in order, and what happens to their error")
		def("elasticRecord", "List (String × String)", leanPairs(hpLiteral(fd, "ScanResult", sc)),
			"what the elastic record is filled from (recv = the scanner, arg1 = the request, call:F#i = i-th result of F)")
		def("elasticScanDeadline", "String", leanStr(hpDeadline(fd, sc)), "elastic `Scan` sets no deadline of its own (\"\")")
	}
	for _, g := range [][2]string{{"GetInfo", "elasticInfoURL"}, {"GetIndexes", "elasticIndexesURL"}} {
		if fd := need(ef, "elasticClient", g[0], "elastic.go"); fd != nil {
			sc := newHPScope(fd)
			url := ""
			if len(fd.Body.List) == 1 {
				if rs, ok := fd.Body.List[0].(*ast.ReturnStmt); ok && len(rs.Results) == 1 {
					if call, ok := rs.Results[0].(*ast.CallExpr); ok && hpLastName(call.Fun) == "Get" && len(call.Args) == 2 {
						url = sc.resolve(call.Args[1], 0)
					}
				}
			}
			if url == "" {
				problem("elasticClient.%s: not a single `return c.Get(ctx, url)`", g[0])
			}
			def(g[1], "String", leanStr(url), "URL requested by `elasticClient."+g[0]+"` (arg1 = host:port)")
		}
	}
	if fd := need(ef, "elasticClient", "Get", "elastic.go"); fd != nil {
		sc := newHPScope(fd)
		def("elasticGetDeadline", "String", leanStr(hpDeadline(fd, sc)), "duration of the per-request deadline set first thing in `elasticClient.Get`")
		def("elasticGetCalls", "List String", leanStrList(hpCallOrder(fd, map[string]bool{"WithTimeout": true,
			"NewRequestWithContext": true, "NewRequest": true, "Do": true, "Get": true, "NewDecoder": true, "Decode": true, "Token": true,
			"Unmarshal": true, "ReadAll": true})), "library calls of `elasticClient.Get`, in source order")
	}
	if fd := need(ef, "", "NewScanner", "elastic.go"); fd != nil {
		sc := newHPScope(fd)
		def("elasticTransport", "List (String × String)", leanPairs(hpLiteral(fd, "http.Transport", sc)), "settings of the elastic HTTP transport")
		def("elasticClient", "List (String × String)", leanPairs(hpLiteral(fd, "http.Client", sc)), "settings of the elastic HTTP client")
	}
	def("elasticDefaultTimeout", "String", leanStr(constNs(ef, "defaultDataTimeout")), "`defaultDataTimeout` of the elastic scanner")

	// ---------------- docker ----------------
	df := parseFile("pkg/scan/docker/docker.go")
	if fd := need(df, "Scanner", "Scan", "docker.go"); fd != nil {
		sc := newHPScope(fd)
		def("dockerScanCalls", "List (String × String)", leanPairs(hpCalls(fd, map[string]bool{"NewClientWithOpts": true, "getInfo": true,
			"Info": true, "ServerVersion": true, "Ping": true})), "API calls made by docker `Scanner.Scan`, in order, and what happens to their error")
		def("dockerRecord", "List (String × String)", leanPairs(hpLiteral(fd, "ScanResult", sc)),
			"what the docker record is filled from")
		def("dockerScanDeadline", "String", leanStr(hpDeadline(fd, sc)), "duration of the per-probe deadline set first thing in docker `Scan`")
		opts := ""
		ast.Inspect(fd.Body, func(n ast.Node) bool {
			if c, ok := n.(*ast.CallExpr); ok && hpLastName(c.Fun) == "NewClientWithOpts" {
				var p []string
				for _, a := range c.Args {
					p = append(p, sc.resolve(a, 0))
				}
				opts = strings.Join(p, "; ")
			}
			return true
		})
		def("dockerClientOpts", "String", leanStr(opts), "options of the moby client")
	}
	if fd := need(df, "Scanner", "getInfo", "docker.go"); fd != nil {
		def("dockerInfoCalls", "List String", leanStrList(hpCallOrder(fd, map[string]bool{"NegotiateAPIVersion": true, "WithTimeout": true,
			"NewRequestWithContext": true, "NewRequest": true, "Do": true, "Get": true, "NewDecoder": true, "Decode": true, "Token": true,
			"Unmarshal": true, "ReadAll": true, "LimitReader": true, "Info": true})), "library calls of docker `Scanner.getInfo`, in source order")
	}
	if fd := need(df, "", "NewScanner", "docker.go"); fd != nil {
		sc := newHPScope(fd)
		def("dockerTransport", "List (String × String)", leanPairs(hpLiteral(fd, "http.Transport", sc)), "settings of the docker HTTP transport")
		def("dockerClient", "List (String × String)", leanPairs(hpLiteral(fd, "http.Client", sc)), "settings of the docker HTTP client")
	}
	def("dockerDefaultTimeout", "String", leanStr(constNs(df, "defaultDataTimeout")), "`defaultDataTimeout` of the docker scanner")

	sb.WriteString("end SxVerif.Generated.HttpProbe\n")
	writeLean("HttpProbe.lean", sb.String())
}
