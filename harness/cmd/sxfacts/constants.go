package main

import (
	"bytes"
	"fmt"
	"go/ast"
	"go/printer"
	"go/token"
	"strings"
)

func src(n ast.Node) string {
	if n == nil {
		return ""
	}
	var buf bytes.Buffer
	printer.Fprint(&buf, fset, n)
	return strings.Join(strings.Fields(buf.String()), " ")
}

func findFunc(f *ast.File, recv, name string) *ast.FuncDecl {
	for _, d := range f.Decls {
		fd, ok := d.(*ast.FuncDecl)
		if !ok || fd.Name.Name != name {
			continue
		}
		r := ""
		if fd.Recv != nil && len(fd.Recv.List) == 1 {
			r = strings.TrimPrefix(src(fd.Recv.List[0].Type), "*")
		}
		if r == recv {
			return fd
		}
	}
	return nil
}

type leanConsts struct {
	sb strings.Builder
}

func (c *leanConsts) nat(name string, v int64, doc string) {
	c.sb.WriteString(fmt.Sprintf("/-- %s -/\ndef %s : Nat := %d\n\n", doc, name, v))
	all["const."+name] = v
}

func (c *leanConsts) boolean(name string, v bool, doc string) {
	c.sb.WriteString(fmt.Sprintf("/-- %s -/\ndef %s : Bool := %s\n\n", doc, name, leanBool(v)))
	all["const."+name] = v
}

// genConstants: numeric constants and small structural facts the models are parameterised by.
func genConstants() {
	c := &leanConsts{}
	c.sb.WriteString("namespace SxVerif.Generated\n\n")

	// ---- command/root.go: startPortScanEngine (chunk loop) ----
	root := parseFile("command/root.go")
	chunkSize := int64(-1)
	emptyRunsOnce := false
	sharedMethodLockedG := false
	if fd := findFunc(root, "", "startPortScanEngine"); fd == nil {
		problem("startPortScanEngine: not found")
	} else {
		var loop *ast.ForStmt
		sharedMethodLocked := false
		for _, st := range fd.Body.List {
			switch s := st.(type) {
			case *ast.AssignStmt:
				if len(s.Lhs) == 1 && src(s.Lhs[0]) == "chunkSize" {
					if v, ok := intLit(s.Rhs[0]); ok {
						chunkSize = v
					} else {
						problem("startPortScanEngine: chunkSize is not a literal")
					}
				} else if src(s) == "method := &lockedPacketMethod{PacketMethod: conf.scanMethod}" {
					// every engine run gets the one scan method behind one mutex (checked below)
					sharedMethodLocked = true
				} else {
					problem("startPortScanEngine: unexpected statement %q", src(s))
				}
			case *ast.IfStmt:
				// `if len(conf.scanRange.Ports) == 0 { return startPacketScanEngine(ctx, conf) }`
				if loop == nil && src(s.Cond) == "len(conf.scanRange.Ports) == 0" && s.Else == nil && len(s.Body.List) == 1 &&
					src(s.Body.List[0]) == "return startPacketScanEngine(ctx, conf)" {
					emptyRunsOnce = true
				} else {
					problem("startPortScanEngine: unexpected if %q", src(s))
				}
			case *ast.ForStmt:
				loop = s
			case *ast.ReturnStmt:
				if src(s) != "return nil" {
					problem("startPortScanEngine: unexpected return %q", src(s))
				}
			default:
				problem("startPortScanEngine: unexpected statement %q", src(st))
			}
		}
		sharedMethodLockedG = sharedMethodLocked
		if loop == nil {
			problem("startPortScanEngine: no chunk loop")
		} else {
			if src(loop.Init) != "i := 0" || src(loop.Cond) != "i < len(conf.scanRange.Ports)" || src(loop.Post) != "i += chunkSize" {
				problem("startPortScanEngine: loop header %q; %q; %q", src(loop.Init), src(loop.Cond), src(loop.Post))
			}
			want := []string{
				"end := i + chunkSize",
				"if end > len(conf.scanRange.Ports) { end = len(conf.scanRange.Ports) }",
				"newConf := *conf",
				"newConf.scanRange.Ports = conf.scanRange.Ports[i:end]",
				"if err := startPacketScanEngine(ctx, &newConf); err != nil { return err }",
			}
			if sharedMethodLocked {
				want = append(want[:3], append([]string{"newConf.scanMethod = method"}, want[3:]...)...)
				// lockedPacketMethod.ProcessPacketData: lock, deferred unlock, the embedded method's own call, nothing else
				lm := findFunc(root, "lockedPacketMethod", "ProcessPacketData")
				wantLM := []string{"m.mu.Lock()", "defer m.mu.Unlock()", "return m.PacketMethod.ProcessPacketData(data, ci)"}
				if lm == nil || len(lm.Body.List) != len(wantLM) {
					problem("lockedPacketMethod.ProcessPacketData: not lock / deferred unlock / delegate")
				} else {
					for i, st := range lm.Body.List {
						if src(st) != wantLM[i] {
							problem("lockedPacketMethod.ProcessPacketData: statement %d is %q", i, src(st))
						}
					}
				}
			}
			if len(loop.Body.List) != len(want) {
				problem("startPortScanEngine: loop body has %d statements", len(loop.Body.List))
			} else {
				for i, st := range loop.Body.List {
					if src(st) != want[i] {
						problem("startPortScanEngine: loop body statement %d is %q", i, src(st))
					}
				}
			}
		}
	}
	c.nat("chunkSize", chunkSize, "`chunkSize` of `startPortScanEngine` (command/root.go)")
	c.boolean("chunksShareLockedMethod", sharedMethodLockedG, "the engine runs of a chunked port scan share one scan method whose `ProcessPacketData` is behind one mutex")
	c.boolean("emptyRunsOnce", emptyRunsOnce, "`startPortScanEngine` runs one engine when there are no port ranges (pairs file)")

	// ---- channel capacities: make(chan T, N) per function ----
	// the capacity of THE channel of element type `elem` that the function makes (identified by its
	// element type, not by the name of the local variable, so that renaming a local is not a problem)
	capOf := func(file, recv, fn, elem string) int64 {
		f := parseFile(file)
		fd := findFunc(f, recv, fn)
		if fd == nil {
			problem("%s: func %s.%s not found", file, recv, fn)
			return -1
		}
		res, count := int64(-1), 0
		ast.Inspect(fd.Body, func(n ast.Node) bool {
			call, ok := n.(*ast.CallExpr)
			if !ok || src(call.Fun) != "make" || len(call.Args) == 0 {
				return true
			}
			ct, ok := call.Args[0].(*ast.ChanType)
			if !ok || src(ct.Value) != elem {
				return true
			}
			count++
			if len(call.Args) == 1 {
				res = 0
			} else if v, ok := intLit(call.Args[1]); ok {
				res = v
			} else {
				res = -2 // computed capacity (e.g. cap(requests), len(channels)*100)
			}
			return true
		})
		if count != 1 {
			problem("%s: %s.%s: expected exactly one make(chan %s…), found %d", file, recv, fn, elem, count)
			return -1
		}
		return res
	}
	c.nat("capPortsChan", capOf("pkg/scan/request.go", "portGenerator", "Ports", "PortGetter"), "buffer of the port channel")
	c.nat("capIPsChan", capOf("pkg/scan/request.go", "ipGenerator", "IPs", "IPGetter"), "buffer of the address channel")
	c.nat("capIPPortChan", capOf("pkg/scan/request.go", "ipPortGenerator", "GenerateRequests", "*Request"), "buffer of the ip×port request channel")
	c.nat("capIPRequestChan", capOf("pkg/scan/request.go", "ipRequestGenerator", "GenerateRequests", "*Request"), "buffer of the address request channel of the port-less scans (0 = unbuffered: a request is handed over only when the consumer takes it)")
	c.nat("capPacketGenChan", capOf("pkg/scan/generator.go", "packetGenerator", "Packets", "*packet.BufferData"), "buffer of one packet worker's output")
	c.nat("capSenderErrChan", capOf("pkg/packet/sender.go", "sender", "SendPackets", "error"), "buffer of the sender's error channel")
	c.nat("capReceiverErrChan", capOf("pkg/packet/receiver.go", "receiver", "ReceivePackets", "error"), "buffer of the receiver's error channel")
	c.nat("capMergeErrChan", capOf("pkg/scan/engine.go", "", "mergeErrChan", "error"), "buffer of the merged error channel")
	c.nat("capEngineErrChan", capOf("pkg/scan/engine.go", "GenericEngine", "Start", "error"), "buffer of the generic engine's error channel")
	c.nat("capEngineDoneChan", capOf("pkg/scan/engine.go", "GenericEngine", "Start", "interface{}"), "buffer of the generic engine's done channel (0 = unbuffered)")

	// ---- literal constants in command/config.go ----
	cfg := parseFile("command/config.go")
	constVal := func(name string) string {
		out := ""
		ast.Inspect(cfg, func(n ast.Node) bool {
			vs, ok := n.(*ast.ValueSpec)
			if ok {
				for i, nm := range vs.Names {
					if nm.Name == name && i < len(vs.Values) {
						out = src(vs.Values[i])
					}
				}
			}
			return true
		})
		return out
	}
	dur := func(s string) int64 { // "300 * time.Millisecond" -> ns
		parts := strings.Split(s, " * ")
		if len(parts) != 2 {
			return -1
		}
		var n int64
		if _, err := fmt.Sscan(parts[0], &n); err != nil {
			return -1
		}
		unit := map[string]int64{"time.Nanosecond": 1, "time.Microsecond": 1e3, "time.Millisecond": 1e6, "time.Second": 1e9, "time.Minute": 60e9}[parts[1]]
		if unit == 0 {
			return -1
		}
		return n * unit
	}
	if v := dur(constVal("defaultExitDelay")); v < 0 {
		problem("defaultExitDelay: unrecognised %q", constVal("defaultExitDelay"))
		c.nat("defaultExitDelayNs", 0, "`defaultExitDelay` in ns (UNRECOGNISED)")
	} else {
		c.nat("defaultExitDelayNs", v, "`defaultExitDelay` in ns")
	}
	var wc int64 = -1
	fmt.Sscan(constVal("defaultWorkerCount"), &wc)
	c.nat("defaultWorkerCount", wc, "`defaultWorkerCount`")

	// result channel capacity used by every command: scan.NewResultChan(ctx, N)
	resCaps := map[int64]bool{}
	for _, file := range []string{"command/config.go", "command/tcp.go", "command/udp.go", "command/icmp.go", "command/arp.go"} {
		f := parseFile(file)
		ast.Inspect(f, func(n ast.Node) bool {
			call, ok := n.(*ast.CallExpr)
			if ok && src(call.Fun) == "scan.NewResultChan" && len(call.Args) == 2 {
				if v, ok := intLit(call.Args[1]); ok {
					resCaps[v] = true
				} else {
					problem("%s: NewResultChan capacity is not a literal", file)
				}
			}
			return true
		})
	}
	if len(resCaps) != 1 {
		problem("NewResultChan: capacities differ across commands: %v", resCaps)
	}
	for v := range resCaps {
		c.nat("resultChanCap", v, "capacity passed to `scan.NewResultChan` by every command")
	}

	// spoofed field ranges of the fillers (rand.Intn arguments): see fill.go (genFillDraws), which evaluates the
	// constant expressions instead of comparing source text
	_ = token.ADD

	c.sb.WriteString("end SxVerif.Generated\n")
	writeLean("Constants.lean", c.sb.String())
}
