package main

func genConstants() {}
