package main

import (
	"fmt"
	"go/ast"
	"go/token"
	"strconv"
	"strings"
)

// genJSONWriter (C14): how a result reaches the output stream.
//   - command/log/writer_json.go, (*JSONResultWriter).Write: every call that is handed the io.Writer
//     parameter, as (callee, format literal, origin of the data argument); number of loops in the body.
//   - command/log/logger.go, (*logger).LogResults: every call of the ResultWriter, as (select case it sits
//     in, writer argument, result argument), number of loops around the select; other uses of the sink.
//
// Names of parameters/locals are resolved, not matched textually, so renaming them changes nothing.
func genJSONWriter() {
	var sb strings.Builder
	sb.WriteString("namespace SxVerif.Generated\n\n")

	// ---- JSONResultWriter.Write
	wj := parseFile("command/log/writer_json.go")
	type sink struct{ callee, format, data string }
	var sinks []sink
	loops := 0
	if fd := findFunc(wj, "JSONResultWriter", "Write"); fd == nil {
		problem("JSONResultWriter.Write: not found")
	} else if fd.Type.Params == nil || len(fd.Type.Params.List) != 2 || len(fd.Type.Params.List[0].Names) != 1 ||
		len(fd.Type.Params.List[1].Names) != 1 {
		problem("JSONResultWriter.Write: unexpected parameter list %q", src(fd.Type.Params))
	} else {
		wName := fd.Type.Params.List[0].Names[0].Name
		rName := fd.Type.Params.List[1].Names[0].Name
		// locals assigned from <result>.MarshalJSON()
		origin := map[string]string{}
		ast.Inspect(fd.Body, func(n ast.Node) bool {
			switch s := n.(type) {
			case *ast.ForStmt, *ast.RangeStmt:
				loops++
			case *ast.GoStmt, *ast.DeferStmt:
				problem("JSONResultWriter.Write: go/defer statement %q", src(s))
			case *ast.AssignStmt:
				if len(s.Rhs) == 1 {
					if c, ok := s.Rhs[0].(*ast.CallExpr); ok && src(c.Fun) == rName+".MarshalJSON" && len(c.Args) == 0 && len(s.Lhs) >= 1 {
						if id, ok := s.Lhs[0].(*ast.Ident); ok {
							origin[id.Name] = "result.MarshalJSON"
						}
					}
				}
			}
			return true
		})
		ast.Inspect(fd.Body, func(n ast.Node) bool {
			c, ok := n.(*ast.CallExpr)
			if !ok {
				return true
			}
			uses := false
			for _, a := range c.Args {
				ast.Inspect(a, func(m ast.Node) bool {
					if id, ok := m.(*ast.Ident); ok && id.Name == wName {
						uses = true
					}
					return true
				})
			}
			if sel, ok := c.Fun.(*ast.SelectorExpr); ok {
				if id, ok := sel.X.(*ast.Ident); ok && id.Name == wName {
					uses = true // w.Write(...)
				}
			}
			if !uses {
				return true
			}
			s := sink{callee: src(c.Fun)}
			if len(c.Args) == 3 {
				if lit, ok := c.Args[1].(*ast.BasicLit); ok && lit.Kind == token.STRING {
					if v, err := strconv.Unquote(lit.Value); err == nil {
						s.format = v
					}
				}
				if id, ok := c.Args[2].(*ast.Ident); ok {
					s.data = origin[id.Name]
					if s.data == "" {
						s.data = "?" + id.Name
					}
				} else {
					s.data = "?" + src(c.Args[2])
				}
			} else {
				s.data = "?" + src(c)
			}
			sinks = append(sinks, s)
			return true
		})
	}
	sb.WriteString("/-- calls in `(*JSONResultWriter).Write` that are handed its io.Writer: (callee, format literal, origin of the data argument) -/\n")
	sb.WriteString("def jsonWriterSinkCalls : List (String × String × String) := [")
	for i, s := range sinks {
		if i > 0 {
			sb.WriteString(", ")
		}
		sb.WriteString(fmt.Sprintf("(%s, %s, %s)", leanStr(s.callee), leanStr(s.format), leanStr(s.data)))
	}
	sb.WriteString("]\n\n")
	sb.WriteString(fmt.Sprintf("/-- loops in the body of `(*JSONResultWriter).Write` -/\ndef jsonWriterLoops : Nat := %d\n\n", loops))
	all["json.writerSinkCalls"] = fmt.Sprint(sinks)

	// ---- logger.LogResults
	lg := parseFile("command/log/logger.go")
	type wcall struct{ where, writer, result string }
	var wcalls []wcall
	var otherSinkUses []string
	selects, forLoops := 0, 0
	if fd := findFunc(lg, "logger", "LogResults"); fd == nil {
		problem("logger.LogResults: not found")
	} else if fd.Recv == nil || len(fd.Recv.List[0].Names) != 1 || fd.Type.Params == nil || len(fd.Type.Params.List) != 2 ||
		len(fd.Type.Params.List[1].Names) != 1 {
		problem("logger.LogResults: unexpected signature")
	} else {
		recv := fd.Recv.List[0].Names[0].Name
		resultsName := fd.Type.Params.List[1].Names[0].Name
		// walk with the enclosing select-case remembered
		var walk func(n ast.Node, where string, received string)
		walk = func(n ast.Node, where string, received string) {
			ast.Inspect(n, func(m ast.Node) bool {
				switch s := m.(type) {
				case *ast.ForStmt:
					if m != n {
						forLoops++
					}
				case *ast.RangeStmt:
					forLoops++
				case *ast.SelectStmt:
					selects++
					for _, cl := range s.Body.List {
						cc := cl.(*ast.CommClause)
						w, rcv := "default", ""
						if cc.Comm != nil {
							w = "other"
							if as, ok := cc.Comm.(*ast.AssignStmt); ok && len(as.Rhs) == 1 {
								if u, ok := as.Rhs[0].(*ast.UnaryExpr); ok && u.Op == token.ARROW && src(u.X) == resultsName {
									w = "recv results"
									if id, ok := as.Lhs[0].(*ast.Ident); ok {
										rcv = id.Name
									}
								}
							}
						}
						for _, st := range cc.Body {
							walk(st, w, rcv)
						}
					}
					return false
				case *ast.CallExpr:
					f := src(s.Fun)
					if f == recv+".rw.Write" {
						c := wcall{where: where, writer: "?", result: "?"}
						if len(s.Args) == 2 {
							if src(s.Args[0]) == recv+".w" {
								c.writer = "recv.w"
							}
							if received != "" && src(s.Args[1]) == received {
								c.result = "received"
							}
						}
						wcalls = append(wcalls, c)
						return false
					}
					for _, a := range s.Args {
						if src(a) == recv+".w" {
							otherSinkUses = append(otherSinkUses, f)
						}
					}
				}
				return true
			})
		}
		walk(fd.Body, "top", "")
	}
	sb.WriteString("/-- calls of the ResultWriter in `(*logger).LogResults`: (select case, writer argument, result argument) -/\n")
	sb.WriteString("def logResultsWriteCalls : List (String × String × String) := [")
	for i, c := range wcalls {
		if i > 0 {
			sb.WriteString(", ")
		}
		sb.WriteString(fmt.Sprintf("(%s, %s, %s)", leanStr(c.where), leanStr(c.writer), leanStr(c.result)))
	}
	sb.WriteString("]\n\n")
	sb.WriteString("/-- other calls in `LogResults` that are handed the sink `l.w` -/\n")
	sb.WriteString("def logResultsOtherSinkUses : List String := " + leanStrList(otherSinkUses) + "\n\n")
	sb.WriteString(fmt.Sprintf("/-- select statements in `LogResults` -/\ndef logResultsSelects : Nat := %d\n\n", selects))

	// ---- the error sink: how NewLogger builds the zap logger, what (*logger).Error does with it
	lgf := parseFile("command/log/logger.go")
	ctorCall, ctorArgs, confSrc := "", -1, ""
	var confAssigns [][2]string
	zapVar := ""
	if fd := findFunc(lgf, "", "NewLogger"); fd == nil {
		problem("NewLogger: not found")
	} else {
		confVar := ""
		ast.Inspect(fd.Body, func(n ast.Node) bool {
			as, ok := n.(*ast.AssignStmt)
			if !ok {
				return true
			}
			if len(as.Rhs) == 1 {
				if c, ok := as.Rhs[0].(*ast.CallExpr); ok {
					if strings.HasPrefix(src(c.Fun), "zap.New") && strings.HasSuffix(src(c.Fun), "Config") && len(as.Lhs) == 1 {
						confVar, confSrc = src(as.Lhs[0]), src(c)
					} else if len(as.Lhs) == 2 && src(as.Lhs[1]) == "err" && (strings.HasPrefix(src(c.Fun), "zap.") || confVar != "" && strings.HasPrefix(src(c.Fun), confVar+".")) {
						zapVar, ctorCall, ctorArgs = src(as.Lhs[0]), strings.Replace(src(c.Fun), confVar+".", "conf.", 1), len(c.Args)
					} else if strings.HasPrefix(src(c.Fun), "zap.New") && len(as.Lhs) == 1 {
						zapVar, ctorCall, ctorArgs = src(as.Lhs[0]), src(c.Fun), len(c.Args)
					}
				}
			}
			for i, l := range as.Lhs {
				if confVar != "" && strings.HasPrefix(src(l), confVar+".") && i < len(as.Rhs) {
					confAssigns = append(confAssigns, [2]string{strings.TrimPrefix(src(l), confVar+"."), src(as.Rhs[i])})
				}
			}
			return true
		})
		// the logger struct gets exactly that value
		stored := false
		ast.Inspect(fd.Body, func(n ast.Node) bool {
			if kv, ok := n.(*ast.KeyValueExpr); ok && src(kv.Key) == "zapl" && src(kv.Value) == zapVar && zapVar != "" {
				stored = true
			}
			return true
		})
		if !stored {
			problem("NewLogger: the zap logger it builds (%q) is not what it stores in logger.zapl", zapVar)
		}
	}
	var errCalls []string
	if fd := findFunc(lgf, "logger", "Error"); fd == nil {
		problem("logger.Error: not found")
	} else {
		for _, st := range fd.Body.List {
			errCalls = append(errCalls, src(st))
		}
	}
	var defers []string
	if fd := findFunc(lgf, "logger", "LogResults"); fd != nil {
		ast.Inspect(fd.Body, func(n ast.Node) bool {
			if d, ok := n.(*ast.DeferStmt); ok {
				defers = append(defers, src(d.Call))
			}
			return true
		})
	}
	sb.WriteString("/-- `NewLogger`: the configuration the zap (error) logger is built from, the assignments to its fields, the call that builds it and its number of arguments (options) -/\n")
	sb.WriteString("def errorLoggerConfig : String := " + leanStr(confSrc) + "\n")
	sb.WriteString("def errorLoggerConfAssigns : List (String × String) := " + leanPairs(confAssigns) + "\n")
	sb.WriteString(fmt.Sprintf("def errorLoggerCtor : String × Int := (%s, %d)\n\n", leanStr(ctorCall), ctorArgs))
	sb.WriteString("/-- the statements of `(*logger).Error` -/\ndef loggerErrorBody : List String := " + leanStrList(errCalls) + "\n\n")
	sb.WriteString("/-- the deferred calls of `(*logger).LogResults` -/\ndef logResultsDefers : List String := " + leanStrList(defers) + "\n\n")
	all["json.logResultsWriteCalls"] = fmt.Sprint(wcalls)
	all["json.logResultsOtherSinkUses"] = otherSinkUses

	sb.WriteString("end SxVerif.Generated\n")
	writeLean("JsonWriter.lean", sb.String())
}
