package main

import (
	"fmt"
	"go/ast"
	"go/token"
	"strings"
)

// genSocks: the constants the SOCKS5 probe model (Model/Socks.lean) is instantiated with, read from
// pkg/scan/socks5/{socks5.go,message.go}: protocol constants, the arguments of NewMethodRequest in
// Scan, the operands of the decision `reply.Ver == … && reply.Method == …`, the SetLinger argument.
func genSocks() {
	files := []*ast.File{parseFile("pkg/scan/socks5/socks5.go"), parseFile("pkg/scan/socks5/message.go")}
	consts := map[string]ast.Expr{}
	for _, f := range files {
		for _, d := range f.Decls {
			gd, ok := d.(*ast.GenDecl)
			if !ok || gd.Tok != token.CONST {
				continue
			}
			for _, sp := range gd.Specs {
				vs := sp.(*ast.ValueSpec)
				for i, nm := range vs.Names {
					if i < len(vs.Values) {
						consts[nm.Name] = vs.Values[i]
					}
				}
			}
		}
	}
	var resolve func(e ast.Expr, depth int) (int64, bool)
	resolve = func(e ast.Expr, depth int) (int64, bool) {
		if v, ok := intLit(e); ok {
			return v, true
		}
		if depth > 4 {
			return 0, false
		}
		switch x := e.(type) {
		case *ast.Ident:
			if c, ok := consts[x.Name]; ok {
				return resolve(c, depth+1)
			}
		case *ast.ParenExpr:
			return resolve(x.X, depth+1)
		case *ast.CallExpr: // byte(X) / uint8(X)
			if len(x.Args) == 1 && (src(x.Fun) == "byte" || src(x.Fun) == "uint8") {
				return resolve(x.Args[0], depth+1)
			}
		}
		return 0, false
	}
	byteVal := func(what string, e ast.Expr) int64 {
		v, ok := resolve(e, 0)
		if !ok || v < 0 || v > 255 {
			problem("socks5: %s is not a byte constant: %q", what, src(e))
			return 0
		}
		return v
	}

	reqVer, expVer, expMethod := int64(0), int64(0), int64(0)
	var reqMethods []int64
	linger := int64(-1 << 40)
	haveReq, haveCmp, haveLinger := false, false, false

	scan := findFunc(files[0], "Scanner", "Scan")
	if scan == nil {
		problem("socks5: Scanner.Scan not found")
	} else {
		ast.Inspect(scan.Body, func(n ast.Node) bool {
			switch x := n.(type) {
			case *ast.CallExpr:
				fn := src(x.Fun)
				if fn == "NewMethodRequest" {
					if haveReq {
						problem("socks5: Scan builds more than one MethodRequest")
					}
					haveReq = true
					if len(x.Args) < 1 || x.Ellipsis != token.NoPos {
						problem("socks5: NewMethodRequest arguments %q", src(x))
						return true
					}
					reqVer = byteVal("request version", x.Args[0])
					for i, a := range x.Args[1:] {
						reqMethods = append(reqMethods, byteVal(fmt.Sprintf("request method %d", i), a))
					}
				}
				if strings.HasSuffix(fn, ".SetLinger") {
					if haveLinger {
						problem("socks5: more than one SetLinger call in Scan")
					}
					haveLinger = true
					if v, ok := intLit(x.Args[0]); ok && len(x.Args) == 1 {
						linger = v
					} else {
						problem("socks5: SetLinger argument is not a literal: %q", src(x))
					}
				}
			case *ast.IfStmt:
				// the `if` whose body builds the ScanResult
				builds := false
				ast.Inspect(x.Body, func(m ast.Node) bool {
					if cl, ok := m.(*ast.CompositeLit); ok && src(cl.Type) == "ScanResult" {
						builds = true
					}
					return true
				})
				if !builds {
					return true
				}
				if haveCmp {
					problem("socks5: more than one branch of Scan builds a ScanResult")
				}
				haveCmp = true
				and, ok := x.Cond.(*ast.BinaryExpr)
				if !ok || and.Op != token.LAND || x.Init != nil {
					problem("socks5: decision is not a conjunction: %q", src(x.Cond))
					return true
				}
				seen := map[string]bool{}
				for _, side := range []ast.Expr{and.X, and.Y} {
					eq, ok := side.(*ast.BinaryExpr)
					if !ok || eq.Op != token.EQL {
						problem("socks5: decision operand is not an equality: %q", src(side))
						continue
					}
					field, other := eq.X, eq.Y
					if _, isSel := field.(*ast.SelectorExpr); !isSel {
						field, other = eq.Y, eq.X
					}
					sel, isSel := field.(*ast.SelectorExpr)
					if !isSel {
						problem("socks5: decision operand compares no reply field: %q", src(side))
						continue
					}
					switch sel.Sel.Name {
					case "Ver":
						expVer = byteVal("expected version", other)
					case "Method":
						expMethod = byteVal("expected method", other)
					default:
						problem("socks5: decision compares unknown field %q", src(side))
					}
					seen[sel.Sel.Name] = true
				}
				if !seen["Ver"] || !seen["Method"] {
					problem("socks5: decision does not compare both Ver and Method: %q", src(x.Cond))
				}
			}
			return true
		})
	}
	if !haveReq {
		problem("socks5: Scan builds no MethodRequest")
	}
	if !haveCmp {
		problem("socks5: Scan has no branch building a ScanResult")
	}
	if !haveLinger {
		// no SetLinger call at all = kernel default (linger off): close never blocks
		linger = -1
	}

	// MethodReply: two byte fields Ver, Method in this order (binary.Read fills them in order)
	replyOK := false
	for _, d := range files[1].Decls {
		gd, ok := d.(*ast.GenDecl)
		if !ok || gd.Tok != token.TYPE {
			continue
		}
		for _, sp := range gd.Specs {
			ts := sp.(*ast.TypeSpec)
			st, ok := ts.Type.(*ast.StructType)
			if ts.Name.Name != "MethodReply" || !ok {
				continue
			}
			var names []string
			for _, f := range st.Fields.List {
				for _, nm := range f.Names {
					names = append(names, nm.Name+":"+src(f.Type))
				}
			}
			if strings.Join(names, ",") == "Ver:byte,Method:byte" {
				replyOK = true
			} else {
				problem("socks5: MethodReply layout is %v", names)
			}
		}
	}
	if !replyOK {
		problem("socks5: MethodReply struct not recognised")
	}

	var sb strings.Builder
	sb.WriteString("namespace SxVerif.Generated\n\n")
	nat := func(name string, v int64, doc string) {
		sb.WriteString(fmt.Sprintf("/-- %s -/\ndef %s : Nat := %d\n\n", doc, name, v))
		all["socks."+name] = v
	}
	nat("socksRequestVersion", reqVer, "first argument of `NewMethodRequest` in `Scanner.Scan` (pkg/scan/socks5/socks5.go)")
	ms := make([]string, len(reqMethods))
	for i, m := range reqMethods {
		ms[i] = fmt.Sprint(m)
	}
	sb.WriteString(fmt.Sprintf("/-- remaining arguments of `NewMethodRequest` in `Scanner.Scan` -/\ndef socksRequestMethods : List Nat := [%s]\n\n", strings.Join(ms, ", ")))
	all["socks.socksRequestMethods"] = reqMethods
	nat("socksExpectVer", expVer, "`reply.Ver == …` in the decision of `Scanner.Scan`")
	nat("socksExpectMethod", expMethod, "`reply.Method == …` in the decision of `Scanner.Scan`")
	sb.WriteString(fmt.Sprintf("/-- argument of `SetLinger` in `Scanner.Scan` (-1 = no call: linger off) -/\ndef socksLingerSec : Int := %d\n\n", linger))
	all["socks.socksLingerSec"] = linger
	sb.WriteString("end SxVerif.Generated\n")
	writeLean("Socks.lean", sb.String())
}
