package main

import (
	"fmt"
	"go/ast"
	"go/token"
	"strings"
)

// genLive: the shape of liveRequestGenerator.GenerateRequests / readRequest / writeRequest
// (pkg/scan/request.go) and the `arp --live` wiring (command/arp.go) as values of the descriptor
// types of lean/SxVerif/Model/LiveShape.lean.  Local identifiers are normalised by ROLE first
// (receiver, ctx, range, the channel variable bound to the delegate's result, the output channel,
// the request/ok pair), so renaming a local does not change the output.  Statements are then
// recognised textually; anything else becomes `.other` plus a translator problem.

// problems of THIS translator: kept apart from the global list so that a rewrite of the live
// generator breaks C19's obligations only (Props/C19.live_translator_clean), not every property.
var liveProblems []string

func liveProblem(format string, a ...interface{}) {
	liveProblems = append(liveProblems, fmt.Sprintf(format, a...))
}

// renameIdents renames plain identifiers (not selector fields, not struct keys) in place.
func renameIdents(n ast.Node, m map[string]string) {
	skip := map[*ast.Ident]bool{}
	ast.Inspect(n, func(x ast.Node) bool {
		switch v := x.(type) {
		case *ast.SelectorExpr:
			skip[v.Sel] = true
		case *ast.KeyValueExpr:
			if id, ok := v.Key.(*ast.Ident); ok {
				skip[id] = true
			}
		}
		return true
	})
	ast.Inspect(n, func(x ast.Node) bool {
		if id, ok := x.(*ast.Ident); ok && !skip[id] {
			if to, ok := m[id.Name]; ok {
				id.Name = to
			}
		}
		return true
	})
}

func paramNames(fl *ast.FieldList) []string {
	var out []string
	if fl == nil {
		return out
	}
	for _, f := range fl.List {
		for _, n := range f.Names {
			out = append(out, n.Name)
		}
	}
	return out
}

func liveSelOp(s string) string {
	switch s {
	case "<-ctx.Done()":
		return ".ctxDone"
	case "<-time.After(rg.rescanTimeout)":
		return ".timerRescan"
	case "request, ok = <-requests":
		return ".recvRequests"
	case "out <- request":
		return ".sendOut"
	}
	liveProblem("live: unrecognised select case %q", s)
	return ".other"
}

func liveAct(s string) string {
	switch s {
	case "return":
		return ".ret"
	case "continue":
		return ".cont"
	case "writeRequest(ctx, out, request)":
		return ".write"
	case "requests, _ = rg.delegate.GenerateRequests(ctx, r)":
		return ".regen"
	}
	liveProblem("live: unrecognised statement %q", s)
	return ".other"
}

func liveActs(l []ast.Stmt) string {
	var t []string
	for _, s := range l {
		t = append(t, liveAct(src(s)))
	}
	return "[" + strings.Join(t, ", ") + "]"
}

func liveSelect(sel *ast.SelectStmt) string {
	var t []string
	for _, c := range sel.Body.List {
		cc := c.(*ast.CommClause)
		if cc.Comm == nil {
			liveProblem("live: select with a default case")
			t = append(t, "(.other, [])")
			continue
		}
		t = append(t, fmt.Sprintf("(%s, %s)", liveSelOp(src(cc.Comm)), liveActs(cc.Body)))
	}
	return "[" + strings.Join(t, ", ") + "]"
}

// countIdent counts plain mentions of a (normalised) identifier.
func countIdent(n ast.Node, name string) int {
	c := 0
	skip := map[*ast.Ident]bool{}
	ast.Inspect(n, func(x ast.Node) bool {
		if v, ok := x.(*ast.SelectorExpr); ok {
			skip[v.Sel] = true
		}
		return true
	})
	ast.Inspect(n, func(x ast.Node) bool {
		if id, ok := x.(*ast.Ident); ok && !skip[id] && id.Name == name {
			c++
		}
		return true
	})
	return c
}

func genLive() {
	var sb strings.Builder
	sb.WriteString("import SxVerif.Model.LiveShape\n\nnamespace SxVerif.Generated\nopen SxVerif.Live\n\n")
	d := map[string]string{
		"passZeroFirst": "false", "startErrReturned": "false", "outCapOfRequests": "false",
		"defersCloseOutOnly": "false", "loopForever": "false", "loop": "[]", "reqUses": "[]",
		"outOnlyClosedAndWritten": "false", "returnsOut": "false", "ctorBindsRescan": "false",
		"readRequest": "[]", "writeRequest": "[]",
	}
	f := parseFile("pkg/scan/request.go")

	// ---- constructor and struct ----
	fieldsOK := false
	for _, decl := range f.Decls {
		gd, ok := decl.(*ast.GenDecl)
		if !ok || gd.Tok != token.TYPE {
			continue
		}
		for _, sp := range gd.Specs {
			ts := sp.(*ast.TypeSpec)
			if ts.Name.Name != "liveRequestGenerator" {
				continue
			}
			if st, ok := ts.Type.(*ast.StructType); ok {
				names := paramNames(st.Fields)
				fieldsOK = len(names) == 2 && names[0] == "delegate" && names[1] == "rescanTimeout"
			}
		}
	}
	if ctor := findFunc(f, "", "NewLiveRequestGenerator"); ctor == nil {
		liveProblem("live: NewLiveRequestGenerator not found")
	} else {
		p := paramNames(ctor.Type.Params)
		if len(p) == 2 && len(ctor.Body.List) == 1 {
			renameIdents(ctor, map[string]string{p[0]: "delegate", p[1]: "d"})
			if fieldsOK && (src(ctor.Body.List[0]) == "return &liveRequestGenerator{delegate, d}" ||
				src(ctor.Body.List[0]) == "return &liveRequestGenerator{delegate: delegate, rescanTimeout: d}") {
				d["ctorBindsRescan"] = "true"
			}
		}
		if d["ctorBindsRescan"] != "true" {
			liveProblem("live: constructor/struct shape not recognised: %q", src(ctor.Body))
		}
	}

	// ---- readRequest / writeRequest ----
	helper := func(name string, roles []string, key string, tail string) {
		fd := findFunc(f, "", name)
		if fd == nil {
			liveProblem("live: %s not found", name)
			return
		}
		m := map[string]string{}
		names := append(paramNames(fd.Type.Params), paramNames(fd.Type.Results)...)
		if len(names) != len(roles) {
			liveProblem("live: %s has %d named params/results, expected %d", name, len(names), len(roles))
			return
		}
		for i, n := range names {
			m[n] = roles[i]
		}
		renameIdents(fd, m)
		body := fd.Body.List
		if tail != "" {
			if len(body) != 2 || src(body[1]) != tail {
				liveProblem("live: %s: unexpected body %q", name, src(fd.Body))
				return
			}
			body = body[:1]
		}
		sel, ok := body[0].(*ast.SelectStmt)
		if len(body) != 1 || !ok {
			liveProblem("live: %s: unexpected body %q", name, src(fd.Body))
			return
		}
		d[key] = liveSelect(sel)
	}
	helper("readRequest", []string{"ctx", "requests", "request", "ok"}, "readRequest", "return")
	helper("writeRequest", []string{"ctx", "out", "request"}, "writeRequest", "")

	// ---- GenerateRequests ----
	fd := findFunc(f, "liveRequestGenerator", "GenerateRequests")
	if fd == nil {
		liveProblem("live: liveRequestGenerator.GenerateRequests not found")
	} else {
		liveBody(fd, d)
	}

	sb.WriteString("/-- shape of `liveRequestGenerator.GenerateRequests`, `readRequest`, `writeRequest` (pkg/scan/request.go) -/\n")
	sb.WriteString("def liveDesc : LiveDesc where\n")
	for _, k := range []string{"passZeroFirst", "startErrReturned", "outCapOfRequests", "defersCloseOutOnly", "loopForever",
		"loop", "reqUses", "outOnlyClosedAndWritten", "returnsOut", "ctorBindsRescan", "readRequest", "writeRequest"} {
		sb.WriteString(fmt.Sprintf("  %s := %s\n", k, d[k]))
	}
	sb.WriteString("\n")
	all["live.desc"] = d

	genArpWiring(&sb)
	sb.WriteString("/-- shapes of the live generator / arp wiring that `sxfacts` did not recognise; `Props/C19` requires `[]` -/\n")
	sb.WriteString("def liveTranslatorProblems : List String := " + leanStrList(liveProblems) + "\n\n")
	all["live.problems"] = liveProblems
	sb.WriteString("end SxVerif.Generated\n")
	writeLean("Live.lean", sb.String())
}

func liveBody(fd *ast.FuncDecl, d map[string]string) {
	m := map[string]string{}
	if fd.Recv != nil && len(fd.Recv.List) == 1 && len(fd.Recv.List[0].Names) == 1 {
		m[fd.Recv.List[0].Names[0].Name] = "rg"
	}
	p := paramNames(fd.Type.Params)
	if len(p) != 2 {
		liveProblem("live: GenerateRequests: parameters %v", p)
		return
	}
	m[p[0]], m[p[1]] = "ctx", "r"
	st := fd.Body.List
	// role of the locals: `X, E := <recv>.delegate.GenerateRequests(..)`, `O := make(chan *Request, …)`
	var goFn *ast.FuncLit
	for _, s := range st {
		switch v := s.(type) {
		case *ast.AssignStmt:
			if v.Tok == token.DEFINE && len(v.Rhs) == 1 {
				if call, ok := v.Rhs[0].(*ast.CallExpr); ok {
					if strings.HasSuffix(src(call.Fun), ".delegate.GenerateRequests") && len(v.Lhs) == 2 {
						m[src(v.Lhs[0])], m[src(v.Lhs[1])] = "requests", "err"
					}
					if src(call.Fun) == "make" && len(v.Lhs) == 1 {
						m[src(v.Lhs[0])] = "out"
					}
				}
			}
		case *ast.GoStmt:
			if fl, ok := v.Call.Fun.(*ast.FuncLit); ok && len(v.Call.Args) == 0 {
				goFn = fl
			}
		}
	}
	if goFn != nil {
		// the (request, ok) pair: left-hand side of the `readRequest` assignment
		ast.Inspect(goFn, func(x ast.Node) bool {
			if as, ok := x.(*ast.AssignStmt); ok && len(as.Lhs) == 2 && len(as.Rhs) == 1 {
				if call, ok := as.Rhs[0].(*ast.CallExpr); ok && src(call.Fun) == "readRequest" {
					m[src(as.Lhs[0])], m[src(as.Lhs[1])] = "request", "ok"
				}
			}
			return true
		})
	}
	// two different locals must not collapse onto one role
	seen := map[string]string{}
	for from, to := range m {
		if prev, dup := seen[to]; dup && prev != from {
			liveProblem("live: two identifiers (%s, %s) in the role %s", prev, from, to)
		}
		seen[to] = from
	}
	renameIdents(fd, m)

	if len(st) != 5 || goFn == nil {
		liveProblem("live: GenerateRequests: expected 5 top-level statements with one goroutine, got %d", len(st))
		return
	}
	d["passZeroFirst"] = leanBool(src(st[0]) == "requests, err := rg.delegate.GenerateRequests(ctx, r)")
	d["startErrReturned"] = leanBool(src(st[1]) == "if err != nil { return nil, err }")
	d["outCapOfRequests"] = leanBool(src(st[2]) == "out := make(chan *Request, cap(requests))")
	if _, ok := st[3].(*ast.GoStmt); !ok {
		liveProblem("live: GenerateRequests: fourth statement is not the goroutine")
	}
	d["returnsOut"] = leanBool(src(st[4]) == "return out, nil")
	for _, k := range []string{"passZeroFirst", "startErrReturned", "outCapOfRequests", "returnsOut"} {
		if d[k] != "true" {
			liveProblem("live: GenerateRequests: %s does not hold", k)
		}
	}

	// goroutine: defers, `var` declarations without initialiser (any order), then `for { … }`
	var defers []string
	var loop *ast.ForStmt
	gl := goFn.Body.List
	for i, s := range gl {
		switch v := s.(type) {
		case *ast.DeferStmt:
			defers = append(defers, src(v.Call))
		case *ast.DeclStmt:
			gd, ok := v.Decl.(*ast.GenDecl)
			if !ok || gd.Tok != token.VAR {
				liveProblem("live: goroutine: declaration %q", src(s))
				continue
			}
			for _, sp := range gd.Specs {
				if vs := sp.(*ast.ValueSpec); len(vs.Values) != 0 {
					liveProblem("live: goroutine: initialised variable %q", src(s))
				}
			}
		case *ast.ForStmt:
			if i == len(gl)-1 && v.Init == nil && v.Cond == nil && v.Post == nil {
				loop = v
			} else {
				liveProblem("live: goroutine: loop is not a trailing `for { }`")
			}
		default:
			liveProblem("live: goroutine: unexpected statement %q", src(s))
		}
	}
	d["defersCloseOutOnly"] = leanBool(len(defers) == 1 && defers[0] == "close(out)")
	if d["defersCloseOutOnly"] != "true" {
		liveProblem("live: goroutine defers %v", defers)
	}
	if loop == nil {
		liveProblem("live: goroutine: no loop")
		return
	}
	d["loopForever"] = "true"
	var ls []string
	for _, s := range loop.Body.List {
		switch v := s.(type) {
		case *ast.IfStmt:
			if v.Else == nil && v.Init != nil && src(v.Init) == "request, ok = readRequest(ctx, requests)" && src(v.Cond) == "ok" {
				ls = append(ls, ".ifRead "+liveActs(v.Body.List))
			} else {
				liveProblem("live: loop: unrecognised if %q", src(s))
				ls = append(ls, ".other")
			}
		case *ast.SelectStmt:
			ls = append(ls, ".sel "+liveSelect(v))
		default:
			liveProblem("live: loop: unexpected statement %q", src(s))
			ls = append(ls, ".other")
		}
	}
	d["loop"] = "[" + strings.Join(ls, ", ") + "]"

	// every mention of `requests` in the goroutine, classified
	var uses []string
	classified := 0
	ast.Inspect(goFn, func(x ast.Node) bool {
		switch v := x.(type) {
		case *ast.CallExpr:
			if src(v.Fun) == "readRequest" && len(v.Args) == 2 && src(v.Args[1]) == "requests" {
				uses = append(uses, ".readArg")
				classified++
			}
		case *ast.AssignStmt:
			if v.Tok == token.ASSIGN && len(v.Lhs) == 2 && src(v.Lhs[0]) == "requests" && len(v.Rhs) == 1 &&
				src(v.Rhs[0]) == "rg.delegate.GenerateRequests(ctx, r)" {
				uses = append(uses, ".rebind")
				classified++
			}
		}
		return true
	})
	for i := classified; i < countIdent(goFn, "requests"); i++ {
		uses = append(uses, ".other")
		liveProblem("live: goroutine mentions `requests` outside readRequest / the re-binding")
	}
	d["reqUses"] = "[" + strings.Join(uses, ", ") + "]"

	// `out`: close(out) once + third argument... (second) of writeRequest
	outOK := 0
	ast.Inspect(goFn, func(x ast.Node) bool {
		if v, ok := x.(*ast.CallExpr); ok {
			if (src(v.Fun) == "close" && len(v.Args) == 1 && src(v.Args[0]) == "out") ||
				(src(v.Fun) == "writeRequest" && len(v.Args) == 3 && src(v.Args[1]) == "out") {
				outOK++
			}
		}
		return true
	})
	d["outOnlyClosedAndWritten"] = leanBool(outOK == countIdent(goFn, "out"))
	if d["outOnlyClosedAndWritten"] != "true" {
		liveProblem("live: goroutine uses `out` outside close / writeRequest")
	}
}

func arpCond(s string) string {
	switch s {
	case "":
		return ".always"
	case "o.excludeIPs != nil":
		return ".excludeSet"
	case "o.liveTimeout > 0":
		return ".livePositive"
	}
	liveProblem("arp wiring: unrecognised condition %q", s)
	return ".other"
}

func arpCtor(s string) string {
	switch s {
	case "scan.NewIPRequestGenerator(scan.NewIPGenerator())":
		return ".ipRequest"
	case "scan.NewFilterIPRequestGenerator(reqgen, o.excludeIPs)":
		return ".filter"
	case "scan.NewLiveRequestGenerator(reqgen, o.liveTimeout)":
		return ".live"
	}
	liveProblem("arp wiring: unrecognised generator %q", s)
	return ".other"
}

func genArpWiring(sb *strings.Builder) {
	f := parseFile("command/arp.go")
	var rows []string
	sourceUses := false
	uniq := ".other"
	flagOK := false

	if fd := findFunc(f, "arpCmdOpts", "newARPScanMethod"); fd == nil {
		liveProblem("arp wiring: newARPScanMethod not found")
	} else {
		m := map[string]string{}
		if len(fd.Recv.List[0].Names) == 1 {
			m[fd.Recv.List[0].Names[0].Name] = "o"
		}
		// the generator variable: the one declared with type scan.RequestGenerator
		ast.Inspect(fd, func(x ast.Node) bool {
			if vs, ok := x.(*ast.ValueSpec); ok && vs.Type != nil && src(vs.Type) == "scan.RequestGenerator" && len(vs.Names) == 1 {
				m[vs.Names[0].Name] = "reqgen"
			}
			return true
		})
		renameIdents(fd, m)
		for _, s := range fd.Body.List {
			switch v := s.(type) {
			case *ast.DeclStmt:
				gd := v.Decl.(*ast.GenDecl)
				for _, sp := range gd.Specs {
					if vs, ok := sp.(*ast.ValueSpec); ok && len(vs.Names) == 1 && vs.Names[0].Name == "reqgen" {
						if len(vs.Values) == 1 {
							rows = append(rows, fmt.Sprintf("(.always, %s)", arpCtor(src(vs.Values[0]))))
						} else {
							liveProblem("arp wiring: generator declared without a value")
						}
					}
				}
			case *ast.IfStmt:
				if countIdent(v, "reqgen") == 0 {
					continue
				}
				as, ok := (ast.Stmt)(nil), false
				if len(v.Body.List) == 1 && v.Else == nil && v.Init == nil {
					as, ok = v.Body.List[0], true
				}
				a, isAs := as.(*ast.AssignStmt)
				if !ok || !isAs || a.Tok != token.ASSIGN || len(a.Lhs) != 1 || src(a.Lhs[0]) != "reqgen" || len(a.Rhs) != 1 {
					liveProblem("arp wiring: unrecognised conditional %q", src(s))
					rows = append(rows, "(.other, .other)")
					continue
				}
				rows = append(rows, fmt.Sprintf("(%s, %s)", arpCond(src(v.Cond)), arpCtor(src(a.Rhs[0]))))
			case *ast.AssignStmt:
				if len(v.Lhs) == 1 && src(v.Lhs[0]) == "reqgen" {
					if len(v.Rhs) == 1 {
						rows = append(rows, fmt.Sprintf("(.always, %s)", arpCtor(src(v.Rhs[0]))))
					}
					continue
				}
				for _, r := range v.Rhs {
					if call, ok := r.(*ast.CallExpr); ok && src(call.Fun) == "scan.NewPacketSource" &&
						len(call.Args) == 2 && src(call.Args[0]) == "reqgen" {
						sourceUses = true
					} else if countIdent(r, "reqgen") > 0 {
						liveProblem("arp wiring: generator used in %q", src(s))
					}
				}
			default:
				if countIdent(s, "reqgen") > 0 {
					liveProblem("arp wiring: generator used in %q", src(s))
				}
			}
		}
		if !sourceUses {
			liveProblem("arp wiring: scan.NewPacketSource(reqgen, …) not found")
		}
	}

	if fd := findFunc(f, "arpCmdOpts", "getLogger"); fd == nil {
		liveProblem("arp wiring: getLogger not found")
	} else {
		m := map[string]string{}
		if len(fd.Recv.List[0].Names) == 1 {
			m[fd.Recv.List[0].Names[0].Name] = "o"
		}
		renameIdents(fd, m)
		n := 0
		ast.Inspect(fd, func(x ast.Node) bool {
			if v, ok := x.(*ast.IfStmt); ok && len(v.Body.List) == 1 && v.Else == nil {
				if a, ok := v.Body.List[0].(*ast.AssignStmt); ok && len(a.Rhs) == 1 && len(a.Lhs) == 1 {
					if call, ok := a.Rhs[0].(*ast.CallExpr); ok && src(call.Fun) == "log.NewUniqueLogger" &&
						len(call.Args) == 1 && src(call.Args[0]) == src(a.Lhs[0]) {
						uniq = arpCond(src(v.Cond))
						n++
					}
				}
			}
			return true
		})
		if n != 1 {
			liveProblem("arp wiring: expected one conditional NewUniqueLogger wrap in getLogger, found %d", n)
			uniq = ".other"
		}
	}

	if fd := findFunc(f, "arpCmdOpts", "initCliFlags"); fd == nil {
		liveProblem("arp wiring: initCliFlags not found")
	} else {
		m := map[string]string{}
		if len(fd.Recv.List[0].Names) == 1 {
			m[fd.Recv.List[0].Names[0].Name] = "o"
		}
		renameIdents(fd, m)
		ast.Inspect(fd, func(x ast.Node) bool {
			if call, ok := x.(*ast.CallExpr); ok && strings.HasSuffix(src(call.Fun), ".DurationVar") && len(call.Args) == 4 &&
				src(call.Args[0]) == "&o.liveTimeout" && src(call.Args[1]) == `"live"` && src(call.Args[2]) == "0" {
				flagOK = true
			}
			return true
		})
		if !flagOK {
			liveProblem("arp wiring: DurationVar(&o.liveTimeout, \"live\", 0, …) not found")
		}
	}

	sb.WriteString("/-- `arp --live` wiring (command/arp.go: newARPScanMethod, getLogger, initCliFlags) -/\n")
	sb.WriteString("def arpWiring : ArpWiring where\n")
	sb.WriteString("  rows := [" + strings.Join(rows, ", ") + "]\n")
	sb.WriteString("  sourceUsesIt := " + leanBool(sourceUses) + "\n")
	sb.WriteString("  uniqueLoggerCond := " + uniq + "\n")
	sb.WriteString("  liveFlagDefaultZero := " + leanBool(flagOK) + "\n\n")
	all["live.arpWiring"] = map[string]interface{}{"rows": rows, "sourceUsesIt": sourceUses, "uniqueLoggerCond": uniq, "liveFlagDefaultZero": flagOK}
}
