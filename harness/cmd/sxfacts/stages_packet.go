package main

// genStagesPacket: stage descriptors of the packet pipeline (Generated/StagesPacket.lean).
//
// A stage is one goroutine body.  Its operations on channels, the WaitGroup and the buffer pool are
// listed in source order; channels are named by their structural role (input / output / errc / done),
// not by their identifier.  Everything that touches a channel in a way this file does not know is
// reported through problem(...), never silently dropped.  go/ast only.

import (
	"fmt"
	"go/ast"
	"go/token"
	"strings"
)

var spSeen = map[string]bool{}

// spProblem: report an unrecognised shape (each distinct message once)
func spProblem(format string, a ...interface{}) {
	msg := fmt.Sprintf("stages_packet: "+format, a...)
	if !spSeen[msg] {
		spSeen[msg] = true
		problem("%s", msg)
	}
}

// ---------------------------------------------------------------- small AST helpers

func spUnparen(e ast.Expr) ast.Expr {
	for {
		p, ok := e.(*ast.ParenExpr)
		if !ok {
			return e
		}
		e = p.X
	}
}

// spIdent: the name of an identifier expression, "" for anything else
func spIdent(e ast.Expr) string {
	if e == nil {
		return ""
	}
	if id, ok := spUnparen(e).(*ast.Ident); ok {
		return id.Name
	}
	return ""
}

func spIsChanType(e ast.Expr) bool {
	if e == nil {
		return false
	}
	_, ok := spUnparen(e).(*ast.ChanType)
	return ok
}

type spParam struct {
	name string
	typ  ast.Expr
}

// spParams: the parameter list, one entry per name
func spParams(ft *ast.FuncType) []spParam {
	var ps []spParam
	if ft == nil || ft.Params == nil {
		return nil
	}
	for _, f := range ft.Params.List {
		if len(f.Names) == 0 {
			ps = append(ps, spParam{"", f.Type})
			continue
		}
		for _, n := range f.Names {
			ps = append(ps, spParam{n.Name, f.Type})
		}
	}
	return ps
}

func spChanParams(ft *ast.FuncType) []string {
	var out []string
	for _, p := range spParams(ft) {
		if spIsChanType(p.typ) && p.name != "" && p.name != "_" {
			out = append(out, p.name)
		}
	}
	return out
}

// spVariadic: name of the variadic parameter, "" if there is none
func spVariadic(ft *ast.FuncType) string {
	ps := spParams(ft)
	if len(ps) == 0 {
		return ""
	}
	if _, ok := ps[len(ps)-1].typ.(*ast.Ellipsis); ok {
		return ps[len(ps)-1].name
	}
	return ""
}

// spCtxParam: name of the first parameter of type context.Context
func spCtxParam(ft *ast.FuncType) string {
	for _, p := range spParams(ft) {
		if src(p.typ) == "context.Context" {
			return p.name
		}
	}
	return ""
}

func spRecvName(fd *ast.FuncDecl) string {
	if fd.Recv == nil || len(fd.Recv.List) != 1 || len(fd.Recv.List[0].Names) != 1 {
		return ""
	}
	return fd.Recv.List[0].Names[0].Name
}

// spCall: e as a call of the function printed as `fun` (e.g. "g.gen.Packets"), nil otherwise
func spCall(e ast.Expr, fun string) *ast.CallExpr {
	if e == nil {
		return nil
	}
	c, ok := spUnparen(e).(*ast.CallExpr)
	if !ok || src(c.Fun) != fun {
		return nil
	}
	return c
}

// spArgsAre: the call's arguments are exactly these identifiers (no `...`)
func spArgsAre(c *ast.CallExpr, names ...string) bool {
	if c == nil || len(c.Args) != len(names) || c.Ellipsis.IsValid() {
		return false
	}
	for i, n := range names {
		if n == "" || spIdent(c.Args[i]) != n {
			return false
		}
	}
	return true
}

// spIsCtxDone: `<-X.Done()` with X an identifier
func spIsCtxDone(e ast.Expr) bool {
	if e == nil {
		return false
	}
	u, ok := spUnparen(e).(*ast.UnaryExpr)
	if !ok || u.Op != token.ARROW {
		return false
	}
	c, ok := spUnparen(u.X).(*ast.CallExpr)
	if !ok || len(c.Args) != 0 {
		return false
	}
	sel, ok := c.Fun.(*ast.SelectorExpr)
	return ok && sel.Sel.Name == "Done" && spIdent(sel.X) != ""
}

func spIsCtxDoneStmt(s ast.Stmt) bool {
	es, ok := s.(*ast.ExprStmt)
	return ok && spIsCtxDone(es.X)
}

// spCommRecv: the channel expression of `<-ch`, `v := <-ch`, `v, ok := <-ch` (also with `=`)
func spCommRecv(s ast.Stmt) (ast.Expr, bool) {
	var e ast.Expr
	switch x := s.(type) {
	case *ast.ExprStmt:
		e = x.X
	case *ast.AssignStmt:
		if len(x.Rhs) != 1 {
			return nil, false
		}
		e = x.Rhs[0]
	default:
		return nil, false
	}
	u, ok := spUnparen(e).(*ast.UnaryExpr)
	if !ok || u.Op != token.ARROW {
		return nil, false
	}
	return u.X, true
}

// spPure: no call, receive, send or function literal inside
func spPure(n ast.Node) bool {
	pure := true
	ast.Inspect(n, func(n ast.Node) bool {
		switch x := n.(type) {
		case *ast.CallExpr, *ast.FuncLit, *ast.SendStmt, *ast.GoStmt, *ast.DeferStmt:
			pure = false
		case *ast.UnaryExpr:
			if x.Op == token.ARROW {
				pure = false
			}
		}
		return pure
	})
	return pure
}

func spIsNil(e ast.Expr) bool { return spIdent(e) == "nil" }

// spErrNotNil: `<name> != nil`
func spErrNotNil(e ast.Expr, name string) bool {
	if e == nil {
		return false
	}
	b, ok := spUnparen(e).(*ast.BinaryExpr)
	return ok && b.Op == token.NEQ && name != "" && spIdent(b.X) == name && spIsNil(b.Y)
}

// ---------------------------------------------------------------- helper functions (one select)

type spHelperOp struct {
	kind string // "send" | "recv"
	idx  int    // index of the channel parameter
}

type spHelper struct {
	guarded bool
	ops     []spHelperOp
	nparams int
}

// spSummarise: summary of a function whose body is exactly one select statement over its channel
// parameters; nil when the body has any other shape
func spSummarise(fd *ast.FuncDecl) *spHelper {
	if fd.Body == nil || len(fd.Body.List) != 1 {
		return nil
	}
	sel, ok := fd.Body.List[0].(*ast.SelectStmt)
	if !ok || spVariadic(fd.Type) != "" {
		return nil
	}
	params := spParams(fd.Type)
	idx := func(e ast.Expr) int {
		name := spIdent(e)
		if name == "" || name == "_" {
			return -1
		}
		for i, p := range params {
			if p.name == name && spIsChanType(p.typ) {
				return i
			}
		}
		return -1
	}
	h := &spHelper{nparams: len(params)}
	for _, c := range sel.Body.List {
		cc, ok := c.(*ast.CommClause)
		if !ok {
			return nil
		}
		for _, s := range cc.Body {
			if _, ok := s.(*ast.ReturnStmt); !ok || !spPure(s) {
				return nil
			}
		}
		switch comm := cc.Comm.(type) {
		case nil:
			return nil // `default:` makes the operation non-blocking: not a shape we describe
		case *ast.SendStmt:
			i := idx(comm.Chan)
			if i < 0 || !spPure(comm.Value) {
				return nil
			}
			h.ops = append(h.ops, spHelperOp{"send", i})
		default:
			if spIsCtxDoneStmt(comm) {
				h.guarded = true
				continue
			}
			ch, ok := spCommRecv(comm)
			if !ok {
				return nil
			}
			i := idx(ch)
			if i < 0 {
				return nil
			}
			h.ops = append(h.ops, spHelperOp{"recv", i})
		}
	}
	if len(h.ops) == 0 {
		return nil
	}
	return h
}

// ---------------------------------------------------------------- files and functions

type spFile struct {
	rel     string
	file    *ast.File
	funcs   map[string]*ast.FuncDecl // top-level functions without receiver
	helpers map[string]*spHelper     // the single-select ones among them
}

func spLoad(rel string) *spFile {
	sf := &spFile{rel: rel, file: parseFile(rel), funcs: map[string]*ast.FuncDecl{}, helpers: map[string]*spHelper{}}
	for _, d := range sf.file.Decls {
		fd, ok := d.(*ast.FuncDecl)
		if !ok || fd.Recv != nil || fd.Body == nil {
			continue
		}
		sf.funcs[fd.Name.Name] = fd
		if h := spSummarise(fd); h != nil {
			sf.helpers[fd.Name.Name] = h
		}
	}
	return sf
}

type spMake struct {
	name string
	elem ast.Expr
	cap  ast.Expr // nil = unbuffered
}

type spFunc struct {
	sf    *spFile
	fd    *ast.FuncDecl
	label string
	makes []spMake
	roles map[string]string // made channel -> output | errc | done
	wgs   map[string]bool   // identifiers declared `var x sync.WaitGroup`
}

func spMakeOf(e ast.Expr) (elem, capacity ast.Expr, ok bool) {
	c, isCall := spUnparen(e).(*ast.CallExpr)
	if !isCall || spIdent(c.Fun) != "make" || len(c.Args) < 1 || len(c.Args) > 2 {
		return nil, nil, false
	}
	ct, isChan := spUnparen(c.Args[0]).(*ast.ChanType)
	if !isChan {
		return nil, nil, false
	}
	if len(c.Args) == 2 {
		capacity = c.Args[1]
	}
	return ct.Value, capacity, true
}

func (sf *spFile) fn(recv, name string) *spFunc {
	label := name
	if recv != "" {
		label = recv + "." + name
	}
	label = sf.rel + ": " + label
	fd := findFunc(sf.file, recv, name)
	if fd == nil || fd.Body == nil {
		spProblem("%s: not found", label)
		return nil
	}
	fn := &spFunc{sf: sf, fd: fd, label: label, roles: map[string]string{}, wgs: map[string]bool{}}
	ast.Inspect(fd.Body, func(n ast.Node) bool {
		switch x := n.(type) {
		case *ast.AssignStmt:
			if len(x.Lhs) == 1 && len(x.Rhs) == 1 && spIdent(x.Lhs[0]) != "" {
				if elem, c, ok := spMakeOf(x.Rhs[0]); ok {
					fn.makes = append(fn.makes, spMake{spIdent(x.Lhs[0]), elem, c})
				}
			}
		case *ast.ValueSpec:
			if src(x.Type) == "sync.WaitGroup" && len(x.Values) == 0 {
				for _, n := range x.Names {
					fn.wgs[n.Name] = true
				}
			}
			for i, n := range x.Names {
				if i < len(x.Values) && len(x.Values) == len(x.Names) {
					if elem, c, ok := spMakeOf(x.Values[i]); ok {
						fn.makes = append(fn.makes, spMake{n.Name, elem, c})
					}
				}
			}
		}
		return true
	})
	return fn
}

// assignRoles: one made channel -> output; two -> the `chan error` is errc, the other done.
// Also requires the function to return exactly the channels it makes.
func (fn *spFunc) assignRoles() {
	switch len(fn.makes) {
	case 1:
		fn.roles[fn.makes[0].name] = "output"
	case 2:
		e0, e1 := src(fn.makes[0].elem) == "error", src(fn.makes[1].elem) == "error"
		switch {
		case fn.makes[0].name == fn.makes[1].name:
			spProblem("%s: channel %s is made twice", fn.label, fn.makes[0].name)
		case e0 && !e1:
			fn.roles[fn.makes[0].name], fn.roles[fn.makes[1].name] = "errc", "done"
		case e1 && !e0:
			fn.roles[fn.makes[1].name], fn.roles[fn.makes[0].name] = "errc", "done"
		default:
			spProblem("%s: two make(chan) assignments but not exactly one `chan error`; cannot tell errc from done", fn.label)
		}
	default:
		spProblem("%s: %d make(chan) assignments; cannot assign channel roles", fn.label, len(fn.makes))
	}
	if len(fn.roles) == 0 {
		return
	}
	var ret *ast.ReturnStmt
	if l := fn.fd.Body.List; len(l) > 0 {
		ret, _ = l[len(l)-1].(*ast.ReturnStmt)
	}
	okRet := ret != nil && len(ret.Results) == len(fn.roles)
	if okRet {
		seen := map[string]bool{}
		for _, r := range ret.Results {
			n := spIdent(r)
			if _, isMade := fn.roles[n]; !isMade || seen[n] {
				okRet = false
			}
			seen[n] = true
		}
	}
	if !okRet {
		spProblem("%s: the last statement does not return exactly the channel(s) the function makes", fn.label)
	}
}

func (fn *spFunc) role(want string) *spMake {
	for i := range fn.makes {
		if fn.roles[fn.makes[i].name] == want {
			return &fn.makes[i]
		}
	}
	return nil
}

// goLit: the one top-level `go func(){...}()` of the function
func (fn *spFunc) goLit() *ast.FuncLit {
	var lits []*ast.FuncLit
	for _, s := range fn.fd.Body.List {
		if g, ok := s.(*ast.GoStmt); ok {
			if lit, ok := g.Call.Fun.(*ast.FuncLit); ok && len(g.Call.Args) == 0 {
				lits = append(lits, lit)
			}
		}
	}
	if len(lits) != 1 {
		spProblem("%s: %d top-level `go func(){...}()` statements, expected 1", fn.label, len(lits))
		return nil
	}
	return lits[0]
}

func spCountGo(n ast.Node) int {
	k := 0
	ast.Inspect(n, func(n ast.Node) bool {
		if _, ok := n.(*ast.GoStmt); ok {
			k++
		}
		return true
	})
	return k
}

func spCountIdent(n ast.Node, name string) int {
	k := 0
	ast.Inspect(n, func(n ast.Node) bool {
		if id, ok := n.(*ast.Ident); ok && id.Name == name {
			k++
		}
		return true
	})
	return k
}

// ---------------------------------------------------------------- the walk over one goroutine body

type spOp struct {
	kind string // recv | send | close | call | wgDone | wgWait
	arg  string // channel role or call id
	flag bool   // guarded / deferred
}

func (o spOp) lean() string {
	switch o.kind {
	case "recv", "send", "close":
		return fmt.Sprintf(".%s .%s %s", o.kind, o.arg, leanBool(o.flag))
	case "call":
		return ".call ." + o.arg
	case "wgDone":
		return ".wgDone " + leanBool(o.flag)
	}
	return ".wgWait"
}

type spStage struct {
	ID    string   `json:"id"`
	Loops bool     `json:"loops"`
	Ops   []string `json:"ops"`
}

type spWalker struct {
	fn       *spFunc
	stage    string
	roles    map[string]string // identifier -> role, including input
	chans    map[string]bool   // identifiers known to be channels (with or without a role)
	deferred bool
	cur      ast.Stmt
	ops      []spOp
}

func (w *spWalker) emit(kind, arg string, flag bool) { w.ops = append(w.ops, spOp{kind, arg, flag}) }

func (w *spWalker) where() string {
	s := src(w.cur)
	if len(s) > 80 {
		s = s[:80] + "..."
	}
	return s
}

// roleOf: the role of a channel expression in an operation that needs one
func (w *spWalker) roleOf(e ast.Expr, what string) (string, bool) {
	if r, ok := w.roles[spIdent(e)]; ok {
		return r, true
	}
	spProblem("%s: %s on %q, which has no channel role", w.stage, what, src(e))
	return "", false
}

// touches: the node mentions a channel with a role, a known channel or a WaitGroup
func (w *spWalker) touches(n ast.Node) bool {
	hit := false
	var visit func(n ast.Node) bool
	visit = func(n ast.Node) bool {
		switch x := n.(type) {
		case *ast.SelectorExpr:
			ast.Inspect(x.X, visit)
			return false
		case *ast.KeyValueExpr:
			if _, isIdent := x.Key.(*ast.Ident); !isIdent {
				ast.Inspect(x.Key, visit)
			}
			ast.Inspect(x.Value, visit)
			return false
		case *ast.Ident:
			if _, ok := w.roles[x.Name]; ok || w.chans[x.Name] || w.fn.wgs[x.Name] {
				hit = true
			}
		}
		return !hit
	}
	ast.Inspect(n, visit)
	return hit
}

func (w *spWalker) identUse(id *ast.Ident) {
	if r, ok := w.roles[id.Name]; ok {
		spProblem("%s: channel %s (%s) is used in a way the translator does not describe: %q", w.stage, id.Name, r, w.where())
	} else if w.chans[id.Name] {
		spProblem("%s: channel %s (no role) is used in a way the translator does not describe: %q", w.stage, id.Name, w.where())
	} else if w.fn.wgs[id.Name] {
		spProblem("%s: WaitGroup %s is used in a way the translator does not describe: %q", w.stage, id.Name, w.where())
	}
}

func (w *spWalker) stmts(l []ast.Stmt) {
	for _, s := range l {
		w.stmt(s)
	}
}

func (w *spWalker) stmt(s ast.Stmt) {
	if s == nil {
		return
	}
	switch s.(type) {
	case *ast.BlockStmt, *ast.LabeledStmt, *ast.CaseClause:
	default:
		w.cur = s
	}
	switch x := s.(type) {
	case *ast.BlockStmt:
		if x != nil {
			w.stmts(x.List)
		}
	case *ast.LabeledStmt:
		w.stmt(x.Stmt)
	case *ast.ExprStmt:
		w.expr(x.X)
	case *ast.SendStmt:
		w.expr(x.Value)
		if r, ok := w.roleOf(x.Chan, "send"); ok {
			w.emit("send", r, false)
		}
	case *ast.IncDecStmt:
		w.expr(x.X)
	case *ast.AssignStmt:
		for _, e := range x.Rhs {
			w.expr(e)
		}
		for _, e := range x.Lhs {
			w.expr(e)
		}
	case *ast.GoStmt:
		if w.touches(x.Call) {
			spProblem("%s: nested go statement touches a channel or WaitGroup: %q", w.stage, w.where())
		}
	case *ast.DeferStmt:
		old := w.deferred
		w.deferred = true
		if lit, ok := x.Call.Fun.(*ast.FuncLit); ok {
			for _, a := range x.Call.Args {
				w.expr(a)
			}
			w.stmts(lit.Body.List)
		} else {
			w.expr(x.Call)
		}
		w.deferred = old
	case *ast.ReturnStmt:
		for _, e := range x.Results {
			w.expr(e)
		}
	case *ast.BranchStmt, *ast.EmptyStmt:
	case *ast.DeclStmt:
		if gd, ok := x.Decl.(*ast.GenDecl); ok {
			for _, sp := range gd.Specs {
				if vs, ok := sp.(*ast.ValueSpec); ok {
					for _, v := range vs.Values {
						w.expr(v)
					}
				}
			}
		}
	case *ast.IfStmt:
		w.stmt(x.Init)
		w.cur = s
		w.expr(x.Cond)
		w.stmt(x.Body)
		w.stmt(x.Else)
	case *ast.ForStmt:
		w.stmt(x.Init)
		w.cur = s
		w.expr(x.Cond)
		w.stmt(x.Post)
		w.stmt(x.Body)
	case *ast.RangeStmt:
		name := spIdent(x.X)
		if r, ok := w.roles[name]; ok {
			w.emit("recv", r, false)
		} else if w.chans[name] {
			spProblem("%s: range over channel %s, which has no channel role", w.stage, name)
		} else {
			w.expr(x.X)
		}
		w.expr(x.Key)
		w.expr(x.Value)
		w.stmt(x.Body)
	case *ast.SwitchStmt:
		w.stmt(x.Init)
		w.cur = s
		w.expr(x.Tag)
		w.stmt(x.Body)
	case *ast.TypeSwitchStmt:
		w.stmt(x.Init)
		w.stmt(x.Assign)
		w.stmt(x.Body)
	case *ast.CaseClause:
		for _, e := range x.List {
			w.expr(e)
		}
		w.stmts(x.Body)
	case *ast.SelectStmt:
		w.selectStmt(x)
	default:
		if w.touches(s) {
			spProblem("%s: unrecognised statement touches a channel or WaitGroup: %q", w.stage, w.where())
		}
	}
}

func (w *spWalker) selectStmt(sel *ast.SelectStmt) {
	guarded := false
	for _, c := range sel.Body.List {
		if cc, ok := c.(*ast.CommClause); ok && cc.Comm != nil && spIsCtxDoneStmt(cc.Comm) {
			guarded = true
		}
	}
	for _, c := range sel.Body.List {
		cc, ok := c.(*ast.CommClause)
		if !ok {
			continue
		}
		switch comm := cc.Comm.(type) {
		case nil:
			spProblem("%s: select with a default clause (non-blocking operation)", w.stage)
		case *ast.SendStmt:
			w.cur = comm
			w.expr(comm.Value)
			if r, ok := w.roleOf(comm.Chan, "send"); ok {
				w.emit("send", r, guarded)
			}
		default:
			if spIsCtxDoneStmt(comm) {
				break
			}
			w.cur = comm
			ch, ok := spCommRecv(comm)
			if !ok {
				spProblem("%s: unrecognised select case %q", w.stage, src(comm))
				break
			}
			if r, ok := w.roleOf(ch, "receive"); ok {
				w.emit("recv", r, guarded)
			}
			if as, ok := comm.(*ast.AssignStmt); ok {
				for _, e := range as.Lhs {
					w.expr(e)
				}
			}
		}
		w.stmts(cc.Body)
	}
}

func (w *spWalker) expr(e ast.Expr) {
	if e == nil {
		return
	}
	switch x := e.(type) {
	case *ast.Ident:
		w.identUse(x)
	case *ast.BasicLit:
	case *ast.ParenExpr:
		w.expr(x.X)
	case *ast.SelectorExpr:
		w.expr(x.X)
	case *ast.StarExpr:
		w.expr(x.X)
	case *ast.UnaryExpr:
		if x.Op == token.ARROW {
			// a receive outside select (a select's own comm clauses never get here)
			if r, ok := w.roleOf(x.X, "receive"); ok {
				w.emit("recv", r, false)
			}
			return
		}
		w.expr(x.X)
	case *ast.BinaryExpr:
		w.expr(x.X)
		w.expr(x.Y)
	case *ast.IndexExpr:
		w.expr(x.X)
		w.expr(x.Index)
	case *ast.SliceExpr:
		w.expr(x.X)
		w.expr(x.Low)
		w.expr(x.High)
		w.expr(x.Max)
	case *ast.TypeAssertExpr:
		w.expr(x.X)
	case *ast.KeyValueExpr:
		if _, isIdent := x.Key.(*ast.Ident); !isIdent { // an identifier key is (almost always) a struct field name
			w.expr(x.Key)
		}
		w.expr(x.Value)
	case *ast.CompositeLit:
		for _, el := range x.Elts {
			w.expr(el)
		}
	case *ast.CallExpr:
		w.call(x)
	case *ast.FuncLit:
		if w.touches(x.Body) {
			spProblem("%s: nested function literal touches a channel or WaitGroup: %q", w.stage, w.where())
		}
	case *ast.ArrayType, *ast.ChanType, *ast.MapType, *ast.FuncType, *ast.InterfaceType, *ast.StructType, *ast.Ellipsis:
	default:
		if w.touches(e) {
			spProblem("%s: unrecognised expression touches a channel or WaitGroup: %q", w.stage, w.where())
		}
	}
}

func (w *spWalker) call(c *ast.CallExpr) {
	fun := spUnparen(c.Fun)
	if id, ok := fun.(*ast.Ident); ok {
		// close(x)
		if id.Name == "close" && len(c.Args) == 1 {
			if r, ok := w.roleOf(c.Args[0], "close"); ok {
				w.emit("close", r, w.deferred)
			}
			return
		}
		// helper of the same file
		if _, isFunc := w.fn.sf.funcs[id.Name]; isFunc {
			h := w.fn.sf.helpers[id.Name]
			if h != nil && len(c.Args) == h.nparams && !c.Ellipsis.IsValid() {
				isChanArg := map[int]bool{}
				for _, op := range h.ops {
					isChanArg[op.idx] = true
				}
				for i, a := range c.Args {
					if !isChanArg[i] {
						w.expr(a)
					}
				}
				for _, op := range h.ops {
					if r, ok := w.roleOf(c.Args[op.idx], "call of helper "+id.Name); ok {
						w.emit(op.kind, r, h.guarded)
					}
				}
				return
			}
			touched := false
			for _, a := range c.Args {
				if _, ok := w.roles[spIdent(a)]; ok {
					touched = true
				}
			}
			if touched {
				spProblem("helper %s has an unrecognised body", id.Name)
				for _, a := range c.Args {
					if _, ok := w.roles[spIdent(a)]; !ok {
						w.expr(a)
					}
				}
				return
			}
		}
	}
	if sel, ok := fun.(*ast.SelectorExpr); ok && w.fn.wgs[spIdent(sel.X)] {
		switch {
		case sel.Sel.Name == "Done" && len(c.Args) == 0:
			w.emit("wgDone", "", w.deferred)
			return
		case sel.Sel.Name == "Wait" && len(c.Args) == 0:
			w.emit("wgWait", "", false)
			return
		case sel.Sel.Name == "Add":
			spProblem("%s: %s.Add inside a goroutine body: %q", w.stage, spIdent(sel.X), w.where())
			for _, a := range c.Args {
				w.expr(a)
			}
			return
		}
	}
	// operands first, then the call itself
	switch f := fun.(type) {
	case *ast.Ident:
		w.identUse(f)
	case *ast.SelectorExpr:
		w.expr(f.X)
	default:
		w.expr(fun)
	}
	for _, a := range c.Args {
		w.expr(a)
	}
	name := src(fun)
	selName := ""
	if sel, ok := fun.(*ast.SelectorExpr); ok {
		selName = sel.Sel.Name
	}
	switch {
	case (name == "packet.NewSerializeBuffer" || name == "NewSerializeBuffer") && len(c.Args) == 0:
		w.emit("call", "newBuffer", false)
	case name == "packet.FreeSerializeBuffer" || name == "FreeSerializeBuffer":
		w.emit("call", "free", false)
	case selName == "Fill":
		w.emit("call", "fill", false)
	case selName == "WritePacketData":
		w.emit("call", "write", false)
	}
}

// stage: walk one goroutine body
func (fn *spFunc) stage(id string, lit *ast.FuncLit) spStage {
	st := spStage{ID: id, Ops: []string{}}
	if fn == nil || lit == nil {
		return st
	}
	w := &spWalker{fn: fn, stage: id, roles: map[string]string{}, chans: map[string]bool{}}
	for n, r := range fn.roles {
		w.roles[n] = r
	}
	for _, m := range fn.makes {
		w.chans[m.name] = true
	}
	for _, n := range spChanParams(fn.fd.Type) {
		w.chans[n] = true
	}
	inputs := spChanParams(lit.Type)
	for _, n := range inputs {
		w.chans[n] = true
	}
	if len(inputs) == 0 {
		inputs = spChanParams(fn.fd.Type)
	}
	if len(inputs) > 1 {
		spProblem("%s: %d channel parameters (%s); expected at most one input", id, len(inputs), strings.Join(inputs, ", "))
	}
	for _, n := range inputs {
		if prev, clash := w.roles[n]; clash {
			spProblem("%s: channel parameter %s is shadowed by the made channel with role %s", id, n, prev)
			continue
		}
		w.roles[n] = "input"
	}
	for _, s := range lit.Body.List {
		for {
			l, ok := s.(*ast.LabeledStmt)
			if !ok {
				break
			}
			s = l.Stmt
		}
		switch x := s.(type) {
		case *ast.ForStmt:
			if x.Cond == nil {
				st.Loops = true
			}
		case *ast.RangeStmt:
			st.Loops = true
		}
	}
	w.stmts(lit.Body.List)
	for _, o := range w.ops {
		st.Ops = append(st.Ops, o.lean())
	}
	return st
}

// ---------------------------------------------------------------- merge functions

type spMerge struct {
	mux, closer *ast.FuncLit
	addAll      bool
	perChannel  bool
	dropReturns bool
}

func spMergeFacts(fn *spFunc) spMerge {
	var m spMerge
	if fn == nil {
		return m
	}
	top := fn.fd.Body.List
	variadic := spVariadic(fn.fd.Type)
	if variadic == "" {
		spProblem("%s: no variadic channel parameter", fn.label)
	} else {
		// the variadic slice must not be modified
		ast.Inspect(fn.fd.Body, func(n ast.Node) bool {
			var lhs []ast.Expr
			switch x := n.(type) {
			case *ast.AssignStmt:
				lhs = x.Lhs
			case *ast.IncDecStmt:
				lhs = []ast.Expr{x.X}
			case *ast.RangeStmt:
				if x.Tok == token.ASSIGN {
					lhs = []ast.Expr{x.Key, x.Value}
				}
			}
			for _, e := range lhs {
				base := e
				if ix, ok := e.(*ast.IndexExpr); ok {
					base = ix.X
				}
				if spIdent(base) == variadic {
					spProblem("%s: the variadic parameter %s is assigned to", fn.label, variadic)
					variadic = ""
				}
			}
			return true
		})
	}
	if len(fn.wgs) != 1 {
		spProblem("%s: %d sync.WaitGroup variables, expected 1", fn.label, len(fn.wgs))
	}

	// multiplex := func(c <-chan T) {...}
	muxVar, nMux := "", 0
	for _, s := range top {
		as, ok := s.(*ast.AssignStmt)
		if !ok || as.Tok != token.DEFINE || len(as.Lhs) != 1 || len(as.Rhs) != 1 {
			continue
		}
		if lit, ok := as.Rhs[0].(*ast.FuncLit); ok && spIdent(as.Lhs[0]) != "" {
			nMux++
			muxVar, m.mux = spIdent(as.Lhs[0]), lit
		}
	}
	if nMux != 1 {
		spProblem("%s: %d top-level `x := func(...){...}` assignments, expected 1 (the multiplexer)", fn.label, nMux)
		muxVar, m.mux = "", nil
	}
	// go func(){ wg.Wait(); close(out) }()
	nCloser := 0
	firstGo := len(top)
	for i, s := range top {
		if spCountGo(s) > 0 && i < firstGo {
			firstGo = i
		}
		if g, ok := s.(*ast.GoStmt); ok {
			if lit, ok := g.Call.Fun.(*ast.FuncLit); ok && len(g.Call.Args) == 0 {
				nCloser++
				m.closer = lit
			}
		}
	}
	if nCloser != 1 {
		spProblem("%s: %d top-level `go func(){...}()` statements, expected 1 (the closer)", fn.label, nCloser)
		m.closer = nil
	}

	// wg.Add(len(channels)) before any go statement; no other Add
	nAdd, addAt := 0, -1
	ast.Inspect(fn.fd.Body, func(n ast.Node) bool {
		if c, ok := n.(*ast.CallExpr); ok {
			if sel, ok := c.Fun.(*ast.SelectorExpr); ok && sel.Sel.Name == "Add" && fn.wgs[spIdent(sel.X)] {
				nAdd++
			}
		}
		return true
	})
	for i, s := range top {
		es, ok := s.(*ast.ExprStmt)
		if !ok {
			continue
		}
		c, ok := es.X.(*ast.CallExpr)
		if !ok || len(c.Args) != 1 {
			continue
		}
		sel, ok := c.Fun.(*ast.SelectorExpr)
		if !ok || sel.Sel.Name != "Add" || !fn.wgs[spIdent(sel.X)] {
			continue
		}
		if l := spCall(c.Args[0], "len"); variadic != "" && spArgsAre(l, variadic) {
			addAt = i
		}
	}
	m.addAll = nAdd == 1 && addAt >= 0 && addAt < firstGo && len(fn.wgs) == 1

	// for _, c := range channels { go multiplex(c) }, nothing else uses multiplex, one more go (the closer)
	nLoop := 0
	for _, s := range top {
		r, ok := s.(*ast.RangeStmt)
		if !ok || variadic == "" || spIdent(r.X) != variadic {
			continue
		}
		v := spIdent(r.Value)
		if r.Tok != token.DEFINE || v == "" || v == "_" || (r.Key != nil && spIdent(r.Key) != "_") || len(r.Body.List) != 1 {
			continue
		}
		g, ok := r.Body.List[0].(*ast.GoStmt)
		if !ok || muxVar == "" || spIdent(g.Call.Fun) != muxVar || !spArgsAre(g.Call, v) {
			continue
		}
		nLoop++
	}
	m.perChannel = nLoop == 1 && muxVar != "" && spCountIdent(fn.fd.Body, muxVar) == 2 &&
		nCloser == 1 && spCountGo(fn.fd.Body) == 2

	// the select that sends: its ctx branch is exactly `return`
	if m.mux != nil {
		nSend, ok := 0, true
		ast.Inspect(m.mux.Body, func(n ast.Node) bool {
			sel, isSel := n.(*ast.SelectStmt)
			if !isSel {
				return true
			}
			sends := false
			var ctx *ast.CommClause
			for _, c := range sel.Body.List {
				cc, isCC := c.(*ast.CommClause)
				if !isCC || cc.Comm == nil {
					continue
				}
				if _, isSend := cc.Comm.(*ast.SendStmt); isSend {
					sends = true
				}
				if spIsCtxDoneStmt(cc.Comm) {
					ctx = cc
				}
			}
			if sends {
				nSend++
				good := false
				if ctx != nil && len(ctx.Body) == 1 {
					if ret, isRet := ctx.Body[0].(*ast.ReturnStmt); isRet && len(ret.Results) == 0 {
						good = true
					}
				}
				ok = ok && good
			}
			return true
		})
		m.dropReturns = nSend > 0 && ok
	}
	return m
}

// ---------------------------------------------------------------- capacities

func spCapLit(fn *spFunc, m *spMake) int64 {
	if fn == nil || m == nil {
		return 0
	}
	if m.cap == nil {
		return 0
	}
	v, ok := intLit(m.cap)
	if !ok || v < 0 {
		spProblem("%s: capacity of %s is %q, not an integer literal", fn.label, m.name, src(m.cap))
		return 0
	}
	return v
}

// spCapMerged: `len(channels)*K` / `K*len(channels)` -> (K, true); `K` -> (K, false)
func spCapMerged(fn *spFunc, m *spMake) (int64, bool) {
	if fn == nil || m == nil || m.cap == nil {
		return 0, false
	}
	if v, ok := intLit(m.cap); ok && v >= 0 {
		return v, false
	}
	variadic := spVariadic(fn.fd.Type)
	if b, ok := spUnparen(m.cap).(*ast.BinaryExpr); ok && b.Op == token.MUL && variadic != "" {
		for _, p := range [][2]ast.Expr{{b.X, b.Y}, {b.Y, b.X}} {
			if l := spCall(p[0], "len"); spArgsAre(l, variadic) {
				if v, ok := intLit(p[1]); ok && v >= 0 {
					return v, true
				}
			}
		}
	}
	spProblem("%s: capacity of %s is %q, neither a literal nor len(<variadic>)*literal", fn.label, m.name, src(m.cap))
	return 0, false
}

// ---------------------------------------------------------------- fixed shapes

// packetMultiGenerator.Packets
func spWorkersLoop(sf *spFile) bool {
	const who = "pkg/scan/generator.go: packetMultiGenerator.Packets"
	fail := func(msg string, a ...interface{}) bool {
		spProblem(who+": "+msg, a...)
		return false
	}
	fd := findFunc(sf.file, "packetMultiGenerator", "Packets")
	if fd == nil || fd.Body == nil {
		return fail("not found")
	}
	g, ctx := spRecvName(fd), spCtxParam(fd.Type)
	chans := spChanParams(fd.Type)
	if g == "" || ctx == "" || len(chans) != 1 {
		return fail("signature %q not recognised", src(fd.Type))
	}
	in := chans[0]
	// the struct field `gen` is the packetGenerator whose goroutine is the worker stage
	genOK := false
	ast.Inspect(sf.file, func(n ast.Node) bool {
		ts, ok := n.(*ast.TypeSpec)
		if !ok || ts.Name.Name != "packetMultiGenerator" {
			return true
		}
		if st, ok := ts.Type.(*ast.StructType); ok {
			for _, f := range st.Fields.List {
				for _, n := range f.Names {
					if n.Name == "gen" && src(f.Type) == "*packetGenerator" {
						genOK = true
					}
				}
			}
		}
		return false
	})
	if !genOK {
		return fail("struct field `gen *packetGenerator` not found")
	}
	l := fd.Body.List
	if len(l) != 3 {
		return fail("body has %d statements, expected 3", len(l))
	}
	// workers := make([]<-chan T, g.numWorkers)
	as, ok := l[0].(*ast.AssignStmt)
	if !ok || as.Tok != token.DEFINE || len(as.Lhs) != 1 || len(as.Rhs) != 1 || spIdent(as.Lhs[0]) == "" {
		return fail("statement 1 is %q", src(l[0]))
	}
	ws := spIdent(as.Lhs[0])
	mk := spCall(as.Rhs[0], "make")
	if mk == nil || len(mk.Args) != 2 || src(mk.Args[1]) != g+".numWorkers" {
		return fail("statement 1 is %q, expected a make of length %s.numWorkers", src(l[0]), g)
	}
	if at, ok := mk.Args[0].(*ast.ArrayType); !ok || at.Len != nil || !spIsChanType(at.Elt) {
		return fail("statement 1 makes %q, expected a slice of channels", src(mk.Args[0]))
	}
	// for i := 0; i < g.numWorkers; i++ { workers[i] = g.gen.Packets(ctx, in) }
	loop, ok := l[1].(*ast.ForStmt)
	if !ok {
		return fail("statement 2 is not a for loop")
	}
	init, ok := loop.Init.(*ast.AssignStmt)
	if !ok || init.Tok != token.DEFINE || len(init.Lhs) != 1 || len(init.Rhs) != 1 || spIdent(init.Lhs[0]) == "" || src(init.Rhs[0]) != "0" {
		return fail("loop init is %q, expected `i := 0`", src(loop.Init))
	}
	i := spIdent(init.Lhs[0])
	cond, ok := loop.Cond.(*ast.BinaryExpr)
	if !ok || cond.Op != token.LSS || spIdent(cond.X) != i || src(cond.Y) != g+".numWorkers" {
		return fail("loop condition is %q, expected `%s < %s.numWorkers`", src(loop.Cond), i, g)
	}
	post, ok := loop.Post.(*ast.IncDecStmt)
	if !ok || post.Tok != token.INC || spIdent(post.X) != i {
		return fail("loop post statement is %q, expected `%s++`", src(loop.Post), i)
	}
	if len(loop.Body.List) != 1 {
		return fail("loop body has %d statements, expected 1", len(loop.Body.List))
	}
	set, ok := loop.Body.List[0].(*ast.AssignStmt)
	if !ok || set.Tok != token.ASSIGN || len(set.Lhs) != 1 || len(set.Rhs) != 1 {
		return fail("loop body is %q", src(loop.Body.List[0]))
	}
	ix, ok := set.Lhs[0].(*ast.IndexExpr)
	if !ok || spIdent(ix.X) != ws || spIdent(ix.Index) != i {
		return fail("loop body assigns %q, expected %s[%s]", src(set.Lhs[0]), ws, i)
	}
	if c := spCall(set.Rhs[0], g+".gen.Packets"); !spArgsAre(c, ctx, in) {
		return fail("loop body assigns %q, expected %s.gen.Packets(%s, %s)", src(set.Rhs[0]), g, ctx, in)
	}
	// return MergeBufferDataChan(ctx, workers...)
	ret, ok := l[2].(*ast.ReturnStmt)
	if !ok || len(ret.Results) != 1 {
		return fail("statement 3 is %q", src(l[2]))
	}
	c := spCall(ret.Results[0], "MergeBufferDataChan")
	if c == nil || len(c.Args) != 2 || !c.Ellipsis.IsValid() || spIdent(c.Args[0]) != ctx || spIdent(c.Args[1]) != ws {
		return fail("statement 3 is %q, expected `return MergeBufferDataChan(%s, %s...)`", src(l[2]), ctx, ws)
	}
	return true
}

// spDefine: `a, b := <call fun(...)>`; returns the bound names and the call
func spDefine(s ast.Stmt, n int, fun string) ([]string, *ast.CallExpr) {
	as, ok := s.(*ast.AssignStmt)
	if !ok || as.Tok != token.DEFINE || len(as.Lhs) != n || len(as.Rhs) != 1 {
		return nil, nil
	}
	c := spCall(as.Rhs[0], fun)
	if c == nil {
		return nil, nil
	}
	names := make([]string, n)
	for i, e := range as.Lhs {
		names[i] = spIdent(e)
		if names[i] == "" || names[i] == "_" {
			return nil, nil
		}
	}
	return names, c
}

// PacketEngine.Start
func spEngineWiring(sf *spFile) bool {
	const who = "pkg/scan/engine.go: PacketEngine.Start"
	fail := func(msg string, a ...interface{}) bool {
		spProblem(who+": "+msg, a...)
		return false
	}
	fd := findFunc(sf.file, "PacketEngine", "Start")
	if fd == nil || fd.Body == nil {
		return fail("not found")
	}
	e, ctx := spRecvName(fd), spCtxParam(fd.Type)
	ps := spParams(fd.Type)
	if e == "" || ctx == "" || len(ps) != 2 || ps[0].name != ctx || ps[1].name == "" {
		return fail("signature %q not recognised", src(fd.Type))
	}
	r := ps[1].name
	l := fd.Body.List
	if len(l) != 4 {
		return fail("body has %d statements, expected 4", len(l))
	}
	// `errc2 := e.rcv.ReceivePackets(ctx)` depends on nothing: it may stand anywhere before the return
	var e2 []string
	var c *ast.CallExpr
	rest := []ast.Stmt{}
	for _, st := range l[:3] {
		if e2 == nil {
			if x, cc := spDefine(st, 1, e+".rcv.ReceivePackets"); x != nil {
				if !spArgsAre(cc, ctx) {
					return fail("%q: expected `errc2 := %s.rcv.ReceivePackets(%s)`", src(st), e, ctx)
				}
				e2 = x
				continue
			}
		}
		rest = append(rest, st)
	}
	if e2 == nil || len(rest) != 2 {
		return fail("no statement `errc2 := %s.rcv.ReceivePackets(%s)` before the return", e, ctx)
	}
	a, c := spDefine(rest[0], 1, e+".src.Packets")
	if a == nil || !spArgsAre(c, ctx, r) {
		return fail("%q: expected `packets := %s.src.Packets(%s, %s)`", src(rest[0]), e, ctx, r)
	}
	d, c := spDefine(rest[1], 2, e+".snd.SendPackets")
	if d == nil || !spArgsAre(c, ctx, a[0]) {
		return fail("%q: expected `done, errc1 := %s.snd.SendPackets(%s, %s)`", src(rest[1]), e, ctx, a[0])
	}
	names := map[string]bool{a[0]: true, d[0]: true, d[1]: true, e2[0]: true, ctx: true, r: true, e: true}
	if len(names) != 7 {
		return fail("a name is bound twice")
	}
	ret, ok := l[3].(*ast.ReturnStmt)
	if !ok || len(ret.Results) != 2 || spIdent(ret.Results[0]) != d[0] {
		return fail("statement 4 is %q, expected `return %s, mergeErrChan(...)`", src(l[3]), d[0])
	}
	m := spCall(ret.Results[1], "mergeErrChan")
	if !spArgsAre(m, ctx, d[1], e2[0]) && !spArgsAre(m, ctx, e2[0], d[1]) {
		return fail("statement 4 is %q, expected mergeErrChan(%s, %s, %s)", src(l[3]), ctx, d[1], e2[0])
	}
	return true
}

// packetSource.Packets
func spSrcErrBranch(sf *spFile) bool {
	const who = "pkg/scan/engine.go: packetSource.Packets"
	fail := func(msg string, a ...interface{}) bool {
		spProblem(who+": "+msg, a...)
		return false
	}
	fd := findFunc(sf.file, "packetSource", "Packets")
	if fd == nil || fd.Body == nil {
		return fail("not found")
	}
	s, ctx := spRecvName(fd), spCtxParam(fd.Type)
	ps := spParams(fd.Type)
	if s == "" || ctx == "" || len(ps) != 2 || ps[0].name != ctx || ps[1].name == "" {
		return fail("signature %q not recognised", src(fd.Type))
	}
	r := ps[1].name
	l := fd.Body.List
	if len(l) != 3 {
		return fail("body has %d statements, expected 3", len(l))
	}
	xe, c := spDefine(l[0], 2, s+".reqgen.GenerateRequests")
	if xe == nil || !spArgsAre(c, ctx, r) {
		return fail("statement 1 is %q, expected `requests, err := %s.reqgen.GenerateRequests(%s, %s)`", src(l[0]), s, ctx, r)
	}
	x, errV := xe[0], xe[1]
	if x == errV {
		return fail("statement 1 binds %s twice", x)
	}
	ifs, ok := l[1].(*ast.IfStmt)
	if !ok || ifs.Init != nil || ifs.Else != nil || !spErrNotNil(ifs.Cond, errV) {
		return fail("statement 2 is not `if %s != nil {...}`", errV)
	}
	b := ifs.Body.List
	if len(b) != 4 {
		return fail("error branch has %d statements, expected 4", len(b))
	}
	mk, ok := b[0].(*ast.AssignStmt)
	if !ok || mk.Tok != token.DEFINE || len(mk.Lhs) != 1 || len(mk.Rhs) != 1 || spIdent(mk.Lhs[0]) == "" {
		return fail("error branch statement 1 is %q", src(b[0]))
	}
	out := spIdent(mk.Lhs[0])
	elem, capE, isMake := spMakeOf(mk.Rhs[0])
	if !isMake || capE == nil || out == errV {
		return fail("error branch statement 1 is %q, expected a buffered make(chan)", src(b[0]))
	}
	if v, ok := intLit(capE); !ok || v < 1 {
		return fail("error branch: capacity %q is not a literal >= 1", src(capE))
	}
	snd, ok := b[1].(*ast.SendStmt)
	if !ok || spIdent(snd.Chan) != out {
		return fail("error branch statement 2 is %q, expected a send on %s", src(b[1]), out)
	}
	val := spUnparen(snd.Value)
	wantType := src(elem)
	if u, ok := val.(*ast.UnaryExpr); ok && u.Op == token.AND {
		val = spUnparen(u.X)
		wantType = strings.TrimPrefix(wantType, "*")
	}
	cl, ok := val.(*ast.CompositeLit)
	if !ok || src(cl.Type) != wantType || len(cl.Elts) != 1 {
		return fail("error branch sends %q, expected a %s literal with one field", src(snd.Value), wantType)
	}
	kv, ok := cl.Elts[0].(*ast.KeyValueExpr)
	if !ok || spIdent(kv.Key) != "Err" || spIdent(kv.Value) != errV {
		return fail("error branch sends %q, expected {Err: %s}", src(snd.Value), errV)
	}
	es, ok := b[2].(*ast.ExprStmt)
	if !ok || !spArgsAre(spCall(es.X, "close"), out) {
		return fail("error branch statement 3 is %q, expected close(%s)", src(b[2]), out)
	}
	ret, ok := b[3].(*ast.ReturnStmt)
	if !ok || len(ret.Results) != 1 || spIdent(ret.Results[0]) != out {
		return fail("error branch statement 4 is %q, expected `return %s`", src(b[3]), out)
	}
	last, ok := l[2].(*ast.ReturnStmt)
	if !ok || len(last.Results) != 1 || !spArgsAre(spCall(last.Results[0], s+".pktgen.Packets"), ctx, x) {
		return fail("statement 3 is %q, expected `return %s.pktgen.Packets(%s, %s)`", src(l[2]), s, ctx, x)
	}
	return true
}

// memory.go: NewSerializeBuffer / FreeSerializeBuffer
func spPoolFacts(sf *spFile) (getInNew, clearThenPut bool) {
	const pool = "bufferPool"
	isPool := false
	for _, d := range sf.file.Decls {
		gd, ok := d.(*ast.GenDecl)
		if !ok || gd.Tok != token.VAR {
			continue
		}
		for _, sp := range gd.Specs {
			vs, ok := sp.(*ast.ValueSpec)
			if !ok {
				continue
			}
			for i, n := range vs.Names {
				if n.Name != pool {
					continue
				}
				if i < len(vs.Values) && (strings.HasPrefix(src(vs.Values[i]), "&sync.Pool{") || strings.HasPrefix(src(vs.Values[i]), "sync.Pool{")) {
					isPool = true
				}
				if len(vs.Values) == 0 && (src(vs.Type) == "sync.Pool" || src(vs.Type) == "*sync.Pool") {
					isPool = true
				}
			}
		}
	}
	if !isPool {
		spProblem("pkg/packet/memory.go: package variable %s of type sync.Pool not found", pool)
	}
	// the (possibly type-asserted) result of bufferPool.Get()
	isGet := func(e ast.Expr) bool {
		e = spUnparen(e)
		if ta, ok := e.(*ast.TypeAssertExpr); ok {
			e = spUnparen(ta.X)
		}
		c := spCall(e, pool+".Get")
		return c != nil && len(c.Args) == 0
	}

	getInNew = func() bool {
		const who = "pkg/packet/memory.go: NewSerializeBuffer"
		fail := func(msg string, a ...interface{}) bool {
			spProblem(who+": "+msg, a...)
			return false
		}
		fd := sf.funcs["NewSerializeBuffer"]
		if fd == nil {
			return fail("not found")
		}
		l := fd.Body.List
		switch len(l) {
		case 1:
			ret, ok := l[0].(*ast.ReturnStmt)
			if !ok || len(ret.Results) != 1 || !isGet(ret.Results[0]) {
				return fail("body is %q, expected `return %s.Get().(T)`", src(l[0]), pool)
			}
		case 2:
			as, ok := l[0].(*ast.AssignStmt)
			if !ok || as.Tok != token.DEFINE || len(as.Lhs) != 1 || len(as.Rhs) != 1 || spIdent(as.Lhs[0]) == "" || !isGet(as.Rhs[0]) {
				return fail("statement 1 is %q, expected `buf := %s.Get().(T)`", src(l[0]), pool)
			}
			ret, ok := l[1].(*ast.ReturnStmt)
			if !ok || len(ret.Results) != 1 || spIdent(ret.Results[0]) != spIdent(as.Lhs[0]) {
				return fail("statement 2 is %q, expected `return %s`", src(l[1]), spIdent(as.Lhs[0]))
			}
		default:
			return fail("body has %d statements, expected 1 or 2", len(l))
		}
		return isPool
	}()

	clearThenPut = func() bool {
		const who = "pkg/packet/memory.go: FreeSerializeBuffer"
		fail := func(msg string, a ...interface{}) bool {
			spProblem(who+": "+msg, a...)
			return false
		}
		fd := sf.funcs["FreeSerializeBuffer"]
		if fd == nil {
			return fail("not found")
		}
		ps := spParams(fd.Type)
		if len(ps) != 1 || ps[0].name == "" || ps[0].name == "_" {
			return fail("signature %q not recognised", src(fd.Type))
		}
		buf := ps[0].name
		named := ""
		if fd.Type.Results != nil && len(fd.Type.Results.List) == 1 && len(fd.Type.Results.List[0].Names) == 1 {
			named = fd.Type.Results.List[0].Names[0].Name
		}
		l := fd.Body.List
		if len(l) != 3 {
			return fail("body has %d statements, expected 3", len(l))
		}
		ifs, ok := l[0].(*ast.IfStmt)
		if !ok || ifs.Else != nil || len(ifs.Body.List) != 1 {
			return fail("statement 1 is %q", src(l[0]))
		}
		as, ok := ifs.Init.(*ast.AssignStmt)
		if !ok || len(as.Lhs) != 1 || len(as.Rhs) != 1 || spIdent(as.Lhs[0]) == "" {
			return fail("statement 1 is %q, expected `if err = %s.Clear(); err != nil`", src(l[0]), buf)
		}
		errV := spIdent(as.Lhs[0])
		if c := spCall(as.Rhs[0], buf+".Clear"); c == nil || len(c.Args) != 0 || !spErrNotNil(ifs.Cond, errV) || errV == buf {
			return fail("statement 1 is %q, expected `if err = %s.Clear(); err != nil`", src(l[0]), buf)
		}
		if as.Tok == token.ASSIGN && errV != named {
			return fail("statement 1 assigns %s, which is not the named result", errV)
		}
		ret, ok := ifs.Body.List[0].(*ast.ReturnStmt)
		if !ok {
			return fail("error branch is %q, expected a return", src(ifs.Body.List[0]))
		}
		switch {
		case len(ret.Results) == 0 && as.Tok == token.ASSIGN && named == errV:
		case len(ret.Results) == 1 && spIdent(ret.Results[0]) == errV:
		default:
			return fail("error branch is %q, which does not return the error of Clear", src(ret))
		}
		es, ok := l[1].(*ast.ExprStmt)
		if !ok || !spArgsAre(spCall(es.X, pool+".Put"), buf) {
			return fail("statement 2 is %q, expected %s.Put(%s)", src(l[1]), pool, buf)
		}
		last, ok := l[2].(*ast.ReturnStmt)
		if !ok {
			return fail("statement 3 is %q, expected a return", src(l[2]))
		}
		switch {
		case len(last.Results) == 0:
		case len(last.Results) == 1 && (spIsNil(last.Results[0]) || (named != "" && spIdent(last.Results[0]) == named)):
		default:
			return fail("statement 3 is %q", src(l[2]))
		}
		return isPool
	}()
	return
}

// ---------------------------------------------------------------- entry point

func genStagesPacket() {
	gen := spLoad("pkg/scan/generator.go")
	eng := spLoad("pkg/scan/engine.go")
	snd := spLoad("pkg/packet/sender.go")
	mem := spLoad("pkg/packet/memory.go")

	var stages []spStage

	// worker: packetGenerator.Packets
	worker := gen.fn("packetGenerator", "Packets")
	var capOut int64
	if worker != nil {
		worker.assignRoles()
		stages = append(stages, worker.stage("worker", worker.goLit()))
		capOut = spCapLit(worker, worker.role("output"))
	} else {
		stages = append(stages, (*spFunc)(nil).stage("worker", nil))
	}

	// mux / closer: MergeBufferDataChan
	merge := gen.fn("", "MergeBufferDataChan")
	var mf spMerge
	var capMergedFactor int64
	capMergedPerChannel := false
	if merge != nil {
		merge.assignRoles()
		mf = spMergeFacts(merge)
		capMergedFactor, capMergedPerChannel = spCapMerged(merge, merge.role("output"))
	}
	stages = append(stages, merge.stage("mux", mf.mux), merge.stage("closer", mf.closer))

	// sender: sender.SendPackets
	sender := snd.fn("sender", "SendPackets")
	var capErrc, capDone int64
	if sender != nil {
		sender.assignRoles()
		stages = append(stages, sender.stage("sender", sender.goLit()))
		if sender.role("errc") == nil || sender.role("done") == nil {
			spProblem("%s: errc / done channels not identified", sender.label)
		}
		capErrc = spCapLit(sender, sender.role("errc"))
		capDone = spCapLit(sender, sender.role("done"))
	} else {
		stages = append(stages, (*spFunc)(nil).stage("sender", nil))
	}

	// emux / ecloser: mergeErrChan
	emerge := eng.fn("", "mergeErrChan")
	var emf spMerge
	var capMerr int64
	if emerge != nil {
		emerge.assignRoles()
		emf = spMergeFacts(emerge)
		capMerr = spCapLit(emerge, emerge.role("output"))
	}
	stages = append(stages, emerge.stage("emux", emf.mux), emerge.stage("ecloser", emf.closer))

	workersLoop := spWorkersLoop(gen)
	engineWiring := spEngineWiring(eng)
	srcErrBranch := spSrcErrBranch(eng)
	poolGetInNew, poolClearThenPut := spPoolFacts(mem)

	var sb strings.Builder
	sb.WriteString("import SxVerif.Model.PipeDesc\nnamespace SxVerif.Generated\nopen SxVerif.Pipe.Desc\n\n")
	sb.WriteString("/-- stage descriptors of the packet pipeline, from generator.go / engine.go / sender.go / memory.go -/\n")
	sb.WriteString("def packetTopology : Topology :=\n  { stages := [\n")
	for i, st := range stages {
		sep := ","
		if i == len(stages)-1 {
			sep = " ],"
		}
		sb.WriteString(fmt.Sprintf("      { id := .%s, loops := %s, ops := [%s] }%s\n", st.ID, leanBool(st.Loops), strings.Join(st.Ops, ", "), sep))
	}
	sb.WriteString(fmt.Sprintf("    capOut := %d, capMergedFactor := %d, capMergedPerChannel := %s, capErrc := %d, capDone := %d, capMerr := %d,\n",
		capOut, capMergedFactor, leanBool(capMergedPerChannel), capErrc, capDone, capMerr))
	sb.WriteString(fmt.Sprintf("    wgAddAll := %s, muxPerChannel := %s, ewgAddAll := %s, emuxPerChannel := %s, muxDropReturns := %s,\n",
		leanBool(mf.addAll), leanBool(mf.perChannel), leanBool(emf.addAll), leanBool(emf.perChannel), leanBool(mf.dropReturns)))
	sb.WriteString(fmt.Sprintf("    workersLoop := %s, engineWiring := %s, srcErrBranch := %s, poolGetInNew := %s, poolClearThenPut := %s }\n",
		leanBool(workersLoop), leanBool(engineWiring), leanBool(srcErrBranch), leanBool(poolGetInNew), leanBool(poolClearThenPut)))
	sb.WriteString("\nend SxVerif.Generated\n")
	writeLean("StagesPacket.lean", sb.String())

	all["stagesPacket"] = map[string]interface{}{
		"stages":              stages,
		"capOut":              capOut,
		"capMergedFactor":     capMergedFactor,
		"capMergedPerChannel": capMergedPerChannel,
		"capErrc":             capErrc,
		"capDone":             capDone,
		"capMerr":             capMerr,
		"wgAddAll":            mf.addAll,
		"muxPerChannel":       mf.perChannel,
		"ewgAddAll":           emf.addAll,
		"emuxPerChannel":      emf.perChannel,
		"muxDropReturns":      mf.dropReturns,
		"workersLoop":         workersLoop,
		"engineWiring":        engineWiring,
		"srcErrBranch":        srcErrBranch,
		"poolGetInNew":        poolGetInNew,
		"poolClearThenPut":    poolClearThenPut,
	}
}
