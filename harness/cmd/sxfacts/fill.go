package main

import (
	"fmt"
	"go/ast"
	"go/token"
	"strconv"
	"strings"
)

// genFillDraws: every math/rand draw of the four PacketFiller.Fill bodies, as plain data:
// (package, header field, conversion type, base, n) for `Field: T(base + rand.Intn(n))` (either order, base optional), and
// (package, field, "uint32", 0, 2^32) for `Field: rand.Uint32()`.  A draw of any other shape, or a
// `rand.` call that is not the value of a header field, is a translator problem.  Props/C05 decides
// that the table is the advertised one (IP id 1..65535, source port 32768..60999).
func genFillDraws() {
	type draw struct {
		pkg, field, conv string
		base, n          int64
	}
	var draws []draw
	for _, pkg := range []string{"tcp", "udp", "icmp", "arp"} {
		f := parseFile("pkg/scan/" + pkg + "/" + pkg + ".go")
		fd := findFunc(f, "PacketFiller", "Fill")
		if fd == nil {
			problem("%s.PacketFiller.Fill: not found", pkg)
			continue
		}
		nRand := 0
		ast.Inspect(fd.Body, func(n ast.Node) bool {
			if se, ok := n.(*ast.SelectorExpr); ok && src(se.X) == "rand" {
				nRand++
			}
			return true
		})
		nSeen := 0
		ast.Inspect(fd.Body, func(n ast.Node) bool {
			cl, ok := n.(*ast.CompositeLit)
			if !ok || !strings.HasPrefix(src(cl.Type), "layers.") {
				return true
			}
			layer := strings.TrimPrefix(src(cl.Type), "layers.")
			for _, el := range cl.Elts {
				kv, ok := el.(*ast.KeyValueExpr)
				if !ok || !strings.Contains(src(kv.Value), "rand.") {
					continue
				}
				field := layer + "." + src(kv.Key)
				if src(kv.Value) == "rand.Uint32()" {
					draws = append(draws, draw{pkg, field, "uint32", 0, 1 << 32})
					nSeen++
					continue
				}
				// T(base + rand.Intn(n))
				conv, ok := kv.Value.(*ast.CallExpr)
				if !ok || len(conv.Args) != 1 {
					problem("%s Fill: draw for %s has shape %q", pkg, field, src(kv.Value))
					continue
				}
				// base + rand.Intn(n), rand.Intn(n) + base, or rand.Intn(n) alone
				var base int64
				var call *ast.CallExpr
				switch e := conv.Args[0].(type) {
				case *ast.CallExpr:
					call = e
				case *ast.BinaryExpr:
					if e.Op == token.ADD {
						if b, ok := constInt(e.X); ok {
							base = b
							call, _ = e.Y.(*ast.CallExpr)
						} else if b, ok := constInt(e.Y); ok {
							base = b
							call, _ = e.X.(*ast.CallExpr)
						}
					}
				}
				if call == nil || src(call.Fun) != "rand.Intn" || len(call.Args) != 1 {
					problem("%s Fill: draw for %s has shape %q", pkg, field, src(kv.Value))
					continue
				}
				n, ok := constInt(call.Args[0])
				if !ok {
					problem("%s Fill: rand.Intn argument %q is not a constant", pkg, src(call.Args[0]))
					continue
				}
				draws = append(draws, draw{pkg, field, strings.TrimPrefix(src(conv.Fun), "layers."), base, n})
				nSeen++
			}
			return true
		})
		if nSeen != nRand {
			problem("%s Fill: %d uses of math/rand, %d recognised as header-field draws", pkg, nRand, nSeen)
		}
	}
	var sb strings.Builder
	sb.WriteString("namespace SxVerif.Generated\n\n")
	sb.WriteString("/-- every `math/rand` draw of the `PacketFiller.Fill` bodies: `(package, header field, conversion type, base, n)`\n")
	sb.WriteString("    for `Field: T(base + rand.Intn(n))`; `rand.Uint32()` is `(…, \"uint32\", 0, 2^32)` -/\n")
	sb.WriteString("def fillDraws : List (String × String × String × Nat × Nat) := [\n")
	for i, d := range draws {
		sep := ","
		if i == len(draws)-1 {
			sep = ""
		}
		sb.WriteString(fmt.Sprintf("  (%s, %s, %s, %d, %d)%s\n", leanStr(d.pkg), leanStr(d.field), leanStr(d.conv), d.base, d.n, sep))
	}
	sb.WriteString("]\n\nend SxVerif.Generated\n")
	writeLean("Fill.lean", sb.String())
	all["fillDraws"] = fmt.Sprint(draws)
}

// constInt evaluates an integer constant expression built from literals, + - * and parentheses.
func constInt(e ast.Expr) (int64, bool) {
	switch x := e.(type) {
	case *ast.BasicLit:
		if x.Kind != token.INT {
			return 0, false
		}
		v, err := strconv.ParseInt(x.Value, 0, 64)
		return v, err == nil
	case *ast.ParenExpr:
		return constInt(x.X)
	case *ast.BinaryExpr:
		a, ok1 := constInt(x.X)
		b, ok2 := constInt(x.Y)
		if !ok1 || !ok2 {
			return 0, false
		}
		switch x.Op {
		case token.ADD:
			return a + b, true
		case token.SUB:
			return a - b, true
		case token.MUL:
			return a * b, true
		}
	}
	return 0, false
}
