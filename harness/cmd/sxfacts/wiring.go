package main

import (
	"fmt"
	"go/ast"
	"go/token"
	"sort"
	"strconv"
	"strings"
)

// genWiring: per packet-scan command, what reaches startPacketScanEngine — the BPF filter function, the
// processor (which NewScanMethod, constructed with which scan name / packet filter / flag printer) and the
// vpn flag on both sides — read from command/*.go; plus the facts about startPacketScanEngine and
// afpacket.Source that make "the filter of the engine's own range is installed on a socket whose link type
// follows the vpn flag" true.  Emitted as Generated/Wiring.lean (rows in the vocabulary of Model/Wiring.lean)
// and as facts.json "wiring" (the harness builds its real processors and real filter strings from it).
//
// Local identifiers are followed, not matched by name, so renaming `m` / `scanName` is not a problem.

type wiringRow struct {
	Cmd       string `json:"cmd"`
	File      string `json:"file"`
	ScanName  string `json:"scanName"`
	Proc      string `json:"proc"`
	Bpf       string `json:"bpf"`
	PktFilter string `json:"pktFilter"`
	PktFlags  string `json:"pktFlags"`
	Engine    string `json:"engine"`
	BpfVpn    bool   `json:"bpfVpn"`
	ProcVpn   bool   `json:"procVpn"`
}

// inspect without descending into nested function literals (other than the root itself)
func inspectShallow(root ast.Node, fn func(ast.Node) bool) {
	ast.Inspect(root, func(n ast.Node) bool {
		if n == nil {
			return false
		}
		if _, ok := n.(*ast.FuncLit); ok && n != root {
			return false
		}
		return fn(n)
	})
}

func stringConsts(f *ast.File) map[string]string {
	out := map[string]string{}
	ast.Inspect(f, func(n ast.Node) bool {
		vs, ok := n.(*ast.ValueSpec)
		if !ok {
			return true
		}
		for i, nm := range vs.Names {
			if i < len(vs.Values) {
				if bl, ok := vs.Values[i].(*ast.BasicLit); ok && bl.Kind == token.STRING {
					s, _ := strconv.Unquote(bl.Value)
					out[nm.Name] = s
				}
			}
		}
		return true
	})
	return out
}

// the expression a local identifier was defined with (`x := e` / `var x = e`) inside body
func localDef(body ast.Node, name string) ast.Expr {
	var out ast.Expr
	n := 0
	inspectShallow(body, func(x ast.Node) bool {
		switch s := x.(type) {
		case *ast.AssignStmt:
			for i, l := range s.Lhs {
				if id, ok := l.(*ast.Ident); ok && id.Name == name {
					n++
					if len(s.Lhs) == len(s.Rhs) {
						out = s.Rhs[i]
					}
				}
			}
		case *ast.ValueSpec:
			for i, id := range s.Names {
				if id.Name == name && i < len(s.Values) {
					n++
					out = s.Values[i]
				}
			}
		}
		return true
	})
	if n != 1 {
		return nil // not found, or assigned more than once: not a simple alias
	}
	return out
}

// `func(c *T) { c.<field> = <param> }` returned by a one-parameter option constructor
func optionSetsField(f *ast.File, fn, field string) bool {
	fd := findFunc(f, "", fn)
	if fd == nil || fd.Type.Params == nil || len(fd.Type.Params.List) != 1 || len(fd.Type.Params.List[0].Names) != 1 ||
		len(fd.Body.List) != 1 {
		return false
	}
	param := fd.Type.Params.List[0].Names[0].Name
	ret, ok := fd.Body.List[0].(*ast.ReturnStmt)
	if !ok || len(ret.Results) != 1 {
		return false
	}
	fl, ok := ret.Results[0].(*ast.FuncLit)
	if !ok || len(fl.Body.List) != 1 || len(fl.Type.Params.List) != 1 || len(fl.Type.Params.List[0].Names) != 1 {
		return false
	}
	recv := fl.Type.Params.List[0].Names[0].Name
	as, ok := fl.Body.List[0].(*ast.AssignStmt)
	if !ok || len(as.Lhs) != 1 || len(as.Rhs) != 1 || as.Tok != token.ASSIGN {
		return false
	}
	return src(as.Lhs[0]) == recv+"."+field && src(as.Rhs[0]) == param
}

// packet filter literal: `func(p *layers.TCP) bool { return p.A && p.B … }` -> sorted flag names
func conjFlags(fl *ast.FuncLit) ([]string, bool) {
	if fl.Type.Params == nil || len(fl.Type.Params.List) != 1 || len(fl.Type.Params.List[0].Names) != 1 || len(fl.Body.List) != 1 {
		return nil, false
	}
	p := fl.Type.Params.List[0].Names[0].Name
	ret, ok := fl.Body.List[0].(*ast.ReturnStmt)
	if !ok || len(ret.Results) != 1 {
		return nil, false
	}
	var flags []string
	var walk func(e ast.Expr) bool
	walk = func(e ast.Expr) bool {
		switch x := e.(type) {
		case *ast.ParenExpr:
			return walk(x.X)
		case *ast.BinaryExpr:
			return x.Op == token.LAND && walk(x.X) && walk(x.Y)
		case *ast.SelectorExpr:
			if id, ok := x.X.(*ast.Ident); ok && id.Name == p {
				flags = append(flags, x.Sel.Name)
				return true
			}
		}
		return false
	}
	if !walk(ret.Results[0]) {
		return nil, false
	}
	sort.Strings(flags)
	return flags, true
}

func genWiring() {
	tcpPkg := parseFile("pkg/scan/tcp/tcp.go")
	icmpPkg := parseFile("pkg/scan/icmp/icmp.go")
	udpPkg := parseFile("pkg/scan/udp/udp.go")
	tcpConsts := stringConsts(tcpPkg)
	icmpConsts := stringConsts(icmpPkg)
	udpConsts := stringConsts(udpPkg)
	root := parseFile("command/root.go")
	cmdTCP := parseFile("command/tcp.go")

	// ---- pkg-level facts the rows rely on ----
	if fd := findFunc(tcpPkg, "", "TrueFilter"); fd == nil || len(fd.Body.List) != 1 || src(fd.Body.List[0]) != "return true" {
		problem("wiring: tcp.TrueFilter is not `return true`")
	}
	if fd := findFunc(tcpPkg, "", "EmptyFlags"); fd == nil || len(fd.Body.List) != 1 || src(fd.Body.List[0]) != `return ""` {
		problem("wiring: tcp.EmptyFlags is not `return \"\"`")
	}
	for fn, field := range map[string]string{"WithPacketFilterFunc": "pktFilter", "WithPacketFlagsFunc": "pktFlags", "WithScanVPNmode": "vpnMode"} {
		if !optionSetsField(tcpPkg, fn, field) {
			problem("wiring: tcp.%s does not just set %s", fn, field)
		}
	}
	// which scan-type constant the icmp / udp methods hand to the ICMP processor, and that vpnMode is passed on
	procName := func(f *ast.File, consts map[string]string, pkg, ctor string) string {
		fd := findFunc(f, "", "NewScanMethod")
		if fd == nil {
			problem("wiring: %s.NewScanMethod not found", pkg)
			return ""
		}
		name := ""
		found := 0
		ast.Inspect(fd.Body, func(n ast.Node) bool {
			call, ok := n.(*ast.CallExpr)
			if !ok || src(call.Fun) != ctor {
				return true
			}
			found++
			if len(call.Args) != 3 {
				problem("wiring: %s.NewScanMethod: %s has %d arguments", pkg, ctor, len(call.Args))
				return true
			}
			v, ok := consts[src(call.Args[0])]
			if !ok {
				problem("wiring: %s.NewScanMethod: scan type %q is not a string constant of the package", pkg, src(call.Args[0]))
			}
			name = v
			// third argument must be the constructor's own vpn parameter
			last := fd.Type.Params.List[len(fd.Type.Params.List)-1]
			if len(last.Names) == 0 || src(call.Args[2]) != last.Names[len(last.Names)-1].Name || src(last.Type) != "bool" {
				problem("wiring: %s.NewScanMethod does not pass its vpn parameter to %s", pkg, ctor)
			}
			return true
		})
		if found != 1 {
			problem("wiring: %s.NewScanMethod: %d calls of %s", pkg, found, ctor)
		}
		return name
	}
	icmpName := procName(icmpPkg, icmpConsts, "icmp", "NewPacketProcessor")
	udpName := procName(udpPkg, udpConsts, "udp", "icmp.NewPacketProcessor")

	// ---- command-level option plumbing ----
	for fn, field := range map[string]string{"withPacketScanMethod": "scanMethod", "withPacketBPFFilter": "bpfFilter", "withPacketVPNmode": "vpnMode"} {
		if !optionSetsField(root, fn, field) {
			problem("wiring: %s does not just set %s", fn, field)
		}
	}
	for fn, field := range map[string]string{"withTCPScanName": "scanName", "withTCPPacketFilterFunc": "packetFilter", "withTCPPacketFlags": "packetFlags"} {
		if !optionSetsField(cmdTCP, fn, field) {
			problem("wiring: %s does not just set %s", fn, field)
		}
	}

	// how each new*ScanMethod hands the vpn flag (and for tcp: name / filter / flags) to the pkg constructor
	type ctorInfo struct {
		proc    string
		procVpn bool
		ok      bool
	}
	ctor := func(file, method, pkgCall string) ctorInfo {
		f := parseFile(file)
		var fd *ast.FuncDecl
		for _, d := range f.Decls {
			if x, ok := d.(*ast.FuncDecl); ok && x.Name.Name == method && x.Recv != nil {
				fd = x
			}
		}
		if fd == nil || len(fd.Recv.List) != 1 || len(fd.Recv.List[0].Names) != 1 {
			problem("wiring: %s: method %s not found", file, method)
			return ctorInfo{}
		}
		recv := fd.Recv.List[0].Names[0].Name
		var call *ast.CallExpr
		n := 0
		ast.Inspect(fd.Body, func(x ast.Node) bool {
			if c, ok := x.(*ast.CallExpr); ok && src(c.Fun) == pkgCall {
				call = c
				n++
			}
			return true
		})
		if n != 1 {
			problem("wiring: %s.%s: %d calls of %s", file, method, n, pkgCall)
			return ctorInfo{}
		}
		info := ctorInfo{ok: true}
		vpnExpr := recv + ".vpnMode"
		switch pkgCall {
		case "tcp.NewScanMethod":
			info.proc = "tcp"
			// the local config struct the options were applied to
			if len(call.Args) < 3 {
				problem("wiring: %s: tcp.NewScanMethod has %d arguments", method, len(call.Args))
				return ctorInfo{}
			}
			cfgVar := strings.TrimSuffix(src(call.Args[0]), ".scanName")
			if cfgVar == src(call.Args[0]) {
				problem("wiring: %s: scan name argument is %q", method, src(call.Args[0]))
			}
			seen := map[string]string{}
			for _, a := range call.Args[3:] {
				c, ok := a.(*ast.CallExpr)
				if !ok || len(c.Args) != 1 {
					problem("wiring: %s: option %q", method, src(a))
					continue
				}
				seen[src(c.Fun)] = src(c.Args[0])
			}
			if seen["tcp.WithPacketFilterFunc"] != cfgVar+".packetFilter" {
				problem("wiring: %s: the packet filter of the options is not handed to tcp.NewScanMethod (%q)", method, seen["tcp.WithPacketFilterFunc"])
			}
			if seen["tcp.WithPacketFlagsFunc"] != cfgVar+".packetFlags" {
				problem("wiring: %s: the flag printer of the options is not handed to tcp.NewScanMethod (%q)", method, seen["tcp.WithPacketFlagsFunc"])
			}
			if v, has := seen["tcp.WithScanVPNmode"]; has {
				if v == vpnExpr {
					info.procVpn = true
				} else {
					problem("wiring: %s: tcp.WithScanVPNmode(%s)", method, v)
				}
			}
			// the options must be applied to that struct: `for _, opt := range opts { opt(c) }`
			applied := false
			ast.Inspect(fd.Body, func(x ast.Node) bool {
				if rs, ok := x.(*ast.RangeStmt); ok && len(rs.Body.List) == 1 && rs.Value != nil {
					if src(rs.Body.List[0]) == src(rs.Value)+"("+cfgVar+")" {
						applied = true
					}
				}
				return true
			})
			if !applied {
				problem("wiring: %s: options are not applied to %s", method, cfgVar)
			}
		case "icmp.NewScanMethod", "udp.NewScanMethod":
			info.proc = strings.SplitN(pkgCall, ".", 2)[0]
			if len(call.Args) != 3 {
				problem("wiring: %s: %s has %d arguments", method, pkgCall, len(call.Args))
				return ctorInfo{}
			}
			switch v := src(call.Args[2]); v {
			case vpnExpr:
				info.procVpn = true
			case "false":
			default:
				problem("wiring: %s: vpn argument %q", method, v)
			}
		case "arp.NewScanMethod":
			info.proc = "arp"
			if len(call.Args) != 2 {
				problem("wiring: %s: arp.NewScanMethod has %d arguments", method, len(call.Args))
			}
		}
		return info
	}
	ctors := map[string]ctorInfo{
		"newTCPScanMethod":  ctor("command/tcp.go", "newTCPScanMethod", "tcp.NewScanMethod"),
		"newICMPScanMethod": ctor("command/icmp.go", "newICMPScanMethod", "icmp.NewScanMethod"),
		"newUDPScanMethod":  ctor("command/udp.go", "newUDPScanMethod", "udp.NewScanMethod"),
		"newARPScanMethod":  ctor("command/arp.go", "newARPScanMethod", "arp.NewScanMethod"),
	}

	// ---- one row per command file ----
	cmds := []struct{ cmd, lean, file string }{
		{"arp", ".arp", "command/arp.go"},
		{"icmp", ".icmp", "command/icmp.go"},
		{"udp", ".udp", "command/udp.go"},
		{"tcpSyn", ".tcpSyn", "command/tcp_syn.go"},
		{"tcpFin", ".tcpFin", "command/tcp_fin.go"},
		{"tcpNull", ".tcpNull", "command/tcp_null.go"},
		{"tcpXmas", ".tcpXmas", "command/tcp_xmas.go"},
		{"tcpFlags", ".tcpFlags", "command/tcp.go"},
	}
	bpfNames := map[string]string{"tcp.BPFFilter": "tcp", "tcp.SYNACKBPFFilter": "synack", "icmp.BPFFilter": "icmp", "arp.BPFFilter": "arp"}
	var rows []wiringRow
	var leanRows []string
	for _, c := range cmds {
		f := parseFile(c.file)
		// function bodies (declarations and literals) that contain an engine call directly
		type site struct {
			body ast.Node
			call *ast.CallExpr
		}
		var sites []site
		ast.Inspect(f, func(n ast.Node) bool {
			var body *ast.BlockStmt
			switch x := n.(type) {
			case *ast.FuncDecl:
				body = x.Body
			case *ast.FuncLit:
				body = x.Body
			}
			if body == nil {
				return true
			}
			inspectShallow(body, func(x ast.Node) bool {
				if call, ok := x.(*ast.CallExpr); ok {
					if fn := src(call.Fun); fn == "startPortScanEngine" || fn == "startPacketScanEngine" {
						sites = append(sites, site{body, call})
					}
				}
				return true
			})
			return true
		})
		if c.file == "command/root.go" {
			continue
		}
		if len(sites) != 1 {
			problem("wiring: %s: %d engine calls (expected exactly one)", c.file, len(sites))
			continue
		}
		body, call := sites[0].body, sites[0].call
		row := wiringRow{Cmd: c.cmd, File: c.file}
		if src(call.Fun) == "startPortScanEngine" {
			row.Engine = "port"
		} else {
			row.Engine = "packet"
		}
		if len(call.Args) != 2 {
			problem("wiring: %s: engine call has %d arguments", c.file, len(call.Args))
			continue
		}
		conf, ok := call.Args[1].(*ast.CallExpr)
		if !ok || src(conf.Fun) != "newPacketScanConfig" {
			problem("wiring: %s: engine configuration is %q", c.file, src(call.Args[1]))
			continue
		}
		var methodExpr ast.Expr
		vpnArg := ""
		seen := map[string]int{}
		for _, a := range conf.Args {
			oc, ok := a.(*ast.CallExpr)
			if !ok {
				problem("wiring: %s: engine option %q", c.file, src(a))
				continue
			}
			name := src(oc.Fun)
			seen[name]++
			switch name {
			case "withPacketScanMethod":
				if len(oc.Args) == 1 {
					methodExpr = oc.Args[0]
				}
			case "withPacketBPFFilter":
				if len(oc.Args) == 1 {
					e := oc.Args[0]
					if id, ok := e.(*ast.Ident); ok {
						if d := localDef(body, id.Name); d != nil {
							e = d
						}
					}
					b, ok := bpfNames[src(e)]
					if !ok {
						problem("wiring: %s: unknown BPF filter function %q", c.file, src(e))
					}
					row.Bpf = b
				}
			case "withPacketVPNmode":
				if len(oc.Args) == 1 {
					vpnArg = src(oc.Args[0])
				}
			case "withRateCount", "withRateWindow", "withPacketEngineConfig":
			default:
				problem("wiring: %s: unknown engine option %s", c.file, name)
			}
		}
		for _, must := range []string{"withPacketScanMethod", "withPacketBPFFilter"} {
			if seen[must] != 1 {
				problem("wiring: %s: %s given %d times", c.file, must, seen[must])
			}
		}
		if seen["withPacketVPNmode"] > 1 {
			problem("wiring: %s: withPacketVPNmode given %d times", c.file, seen["withPacketVPNmode"])
		}
		// the scan method: follow a local alias to `<opts>.newXScanMethod(ctx, …)`
		if id, ok := methodExpr.(*ast.Ident); ok {
			if d := localDef(body, id.Name); d != nil {
				methodExpr = d
			}
		}
		mcall, ok := methodExpr.(*ast.CallExpr)
		var sel *ast.SelectorExpr
		if ok {
			sel, ok = mcall.Fun.(*ast.SelectorExpr)
		}
		if !ok {
			problem("wiring: %s: scan method is %q", c.file, src(methodExpr))
			continue
		}
		info, known := ctors[sel.Sel.Name]
		if !known || !info.ok {
			problem("wiring: %s: unknown scan method constructor %s", c.file, sel.Sel.Name)
			continue
		}
		optsExpr := src(sel.X)
		row.Proc = info.proc
		row.ProcVpn = info.procVpn
		if vpnArg != "" {
			if vpnArg == optsExpr+".vpnMode" {
				row.BpfVpn = true
			} else {
				problem("wiring: %s: withPacketVPNmode(%s) is not the vpn flag of %s", c.file, vpnArg, optsExpr)
			}
		}
		switch info.proc {
		case "icmp":
			row.ScanName = icmpName
		case "udp":
			row.ScanName = udpName
		case "tcp":
			seenT := map[string]int{}
			for _, a := range mcall.Args[1:] {
				oc, ok := a.(*ast.CallExpr)
				if !ok {
					problem("wiring: %s: scan method option %q", c.file, src(a))
					continue
				}
				name := src(oc.Fun)
				seenT[name]++
				switch name {
				case "withTCPScanName":
					e := oc.Args[0]
					if id, ok := e.(*ast.Ident); ok {
						if d := localDef(body, id.Name); d != nil {
							e = d
						}
					}
					v, ok := tcpConsts[strings.TrimPrefix(src(e), "tcp.")]
					if !ok || !strings.HasPrefix(src(e), "tcp.") {
						problem("wiring: %s: scan name %q is not a string constant of pkg/scan/tcp", c.file, src(e))
					}
					row.ScanName = v
				case "withTCPPacketFilterFunc":
					e := oc.Args[0]
					if id, ok := e.(*ast.Ident); ok {
						if d := localDef(body, id.Name); d != nil {
							e = d
						}
					}
					if src(e) == "tcp.TrueFilter" {
						row.PktFilter = "all"
					} else if fl, ok := e.(*ast.FuncLit); ok {
						flags, ok := conjFlags(fl)
						if ok && len(flags) == 2 && flags[0] == "ACK" && flags[1] == "SYN" {
							row.PktFilter = "synack"
						} else {
							problem("wiring: %s: unrecognised packet filter %q", c.file, src(fl.Body))
						}
					} else {
						problem("wiring: %s: unrecognised packet filter %q", c.file, src(e))
					}
				case "withTCPPacketFlags":
					switch src(oc.Args[0]) {
					case "tcp.EmptyFlags":
						row.PktFlags = "empty"
					case "tcp.AllFlags":
						row.PktFlags = "all"
					default:
						problem("wiring: %s: unrecognised flag printer %q", c.file, src(oc.Args[0]))
					}
				case "withTCPPacketFillerOptions":
				default:
					problem("wiring: %s: unknown scan method option %s", c.file, name)
				}
			}
			// options left out fall back to the defaults of tcp.NewScanMethod — only if newTCPScanMethod
			// would not overwrite them with a nil field; it does overwrite, so all three must be given
			for _, must := range []string{"withTCPScanName", "withTCPPacketFilterFunc", "withTCPPacketFlags"} {
				if seenT[must] != 1 {
					problem("wiring: %s: %s given %d times", c.file, must, seenT[must])
				}
			}
		}
		rows = append(rows, row)
		opt := func(s string, m map[string]string) string {
			if s == "" {
				return "none"
			}
			return "some " + m[s]
		}
		leanRows = append(leanRows, fmt.Sprintf(
			"  { cmd := %s, scanName := %s, proc := .%s, bpf := .%s, pktFilter := %s, pktFlags := %s, engine := .%s, bpfVpn := %s, procVpn := %s }",
			c.lean, leanStr(row.ScanName), orQ(row.Proc, "arp"), orQ(row.Bpf, "arp"),
			opt(row.PktFilter, map[string]string{"all": ".all", "synack": ".synack"}),
			opt(row.PktFlags, map[string]string{"all": ".allFlags", "empty": ".empty"}),
			row.Engine, leanBool(row.BpfVpn), leanBool(row.ProcVpn)))
	}
	all["wiring"] = rows

	// ---- startPacketScanEngine / afpacket.Source ----
	engineOK := true
	if fd := findFunc(root, "", "startPacketScanEngine"); fd == nil || len(fd.Type.Params.List) != 2 {
		problem("wiring: startPacketScanEngine not found")
		engineOK = false
	} else {
		conf := fd.Type.Params.List[1].Names[0].Name
		rangeExprs := map[string]bool{"&" + conf + ".scanRange": true}
		inspectShallow(fd.Body, func(n ast.Node) bool {
			if as, ok := n.(*ast.AssignStmt); ok && len(as.Lhs) == 1 && len(as.Rhs) == 1 && rangeExprs[src(as.Rhs[0])] {
				rangeExprs[src(as.Lhs[0])] = true
			}
			return true
		})
		var sawSource, sawFilter, sawEngine int
		srcVar := ""
		inspectShallow(fd.Body, func(n ast.Node) bool {
			switch x := n.(type) {
			case *ast.AssignStmt:
				if len(x.Rhs) == 1 {
					if call, ok := x.Rhs[0].(*ast.CallExpr); ok && src(call.Fun) == "afpacket.NewPacketSource" {
						sawSource++
						if len(call.Args) != 2 || src(call.Args[1]) != conf+".vpnMode" {
							problem("wiring: startPacketScanEngine: capture socket opened with vpn argument %q", src(call.Args[len(call.Args)-1]))
							engineOK = false
						}
						srcVar = src(x.Lhs[0])
					}
				}
			case *ast.CallExpr:
				if sel, ok := x.Fun.(*ast.SelectorExpr); ok && sel.Sel.Name == "SetBPFFilter" {
					sawFilter++
					good := src(sel.X) == srcVar && len(x.Args) == 1
					if good {
						inner, ok := x.Args[0].(*ast.CallExpr)
						good = ok && src(inner.Fun) == conf+".bpfFilter" && len(inner.Args) == 1 && rangeExprs[src(inner.Args[0])]
					}
					if !good {
						problem("wiring: startPacketScanEngine: filter installed by %q", src(x))
						engineOK = false
					}
				}
				if src(x.Fun) == "scan.SetupPacketEngine" {
					sawEngine++
					if len(x.Args) != 2 || src(x.Args[1]) != conf+".scanMethod" {
						problem("wiring: startPacketScanEngine: engine set up by %q", src(x))
						engineOK = false
					}
				}
			}
			return true
		})
		if sawSource != 1 || sawFilter != 1 || sawEngine != 1 {
			problem("wiring: startPacketScanEngine: %d capture sockets, %d SetBPFFilter, %d SetupPacketEngine", sawSource, sawFilter, sawEngine)
			engineOK = false
		}
	}
	af := parseFile("pkg/packet/afpacket/readwriter.go")
	linkOK := true
	if fd := findFunc(af, "", "NewPacketSource"); fd == nil {
		problem("wiring: afpacket.NewPacketSource not found")
		linkOK = false
	} else {
		vpnParam := ""
		for _, p := range fd.Type.Params.List {
			if src(p.Type) == "bool" && len(p.Names) == 1 {
				vpnParam = p.Names[0].Name
			}
		}
		var def, ifs int
		linkVar := ""
		for _, st := range fd.Body.List {
			switch s := st.(type) {
			case *ast.AssignStmt:
				if len(s.Rhs) == 1 && src(s.Rhs[0]) == "layers.LinkTypeEthernet" {
					def++
					linkVar = src(s.Lhs[0])
				}
			case *ast.IfStmt:
				if src(s.Cond) == vpnParam && s.Else == nil && len(s.Body.List) == 1 && linkVar != "" &&
					src(s.Body.List[0]) == linkVar+" = layers.LinkTypeIPv4" {
					ifs++
				}
			}
		}
		if def != 1 || ifs != 1 {
			problem("wiring: afpacket.NewPacketSource: link type is not Ethernet-unless-vpn-then-IPv4")
			linkOK = false
		}
	}
	if fd := findFunc(af, "Source", "SetBPFFilter"); fd == nil {
		problem("wiring: afpacket.Source.SetBPFFilter not found")
		linkOK = false
	} else {
		recv := fd.Recv.List[0].Names[0].Name
		n := 0
		ast.Inspect(fd.Body, func(x ast.Node) bool {
			if call, ok := x.(*ast.CallExpr); ok && src(call.Fun) == "pcap.CompileBPFFilter" {
				n++
				if len(call.Args) != 3 || src(call.Args[0]) != recv+".linkType" ||
					src(call.Args[2]) != fd.Type.Params.List[0].Names[0].Name {
					problem("wiring: SetBPFFilter compiles %q", src(call))
					linkOK = false
				}
			}
			return true
		})
		if n != 1 {
			problem("wiring: SetBPFFilter: %d CompileBPFFilter calls", n)
			linkOK = false
		}
	}
	all["wiring.engineInstallsFilterOfItsRange"] = engineOK
	all["wiring.linkTypeFollowsVpn"] = linkOK

	var sb strings.Builder
	sb.WriteString("import SxVerif.Model.Wiring\nimport SxVerif.Model.CaptureSource\n\nnamespace SxVerif.Generated\nopen SxVerif.Wiring\n\n")
	sb.WriteString("/-- one row per packet-scan command: what `command/*.go` hands to `startPacketScanEngine` -/\n")
	sb.WriteString("def wiring : List Row := [\n" + strings.Join(leanRows, ",\n") + "\n]\n\n")
	sb.WriteString("/-- `startPacketScanEngine` opens the socket with `conf.vpnMode`, installs `conf.bpfFilter(&conf.scanRange)` on it\n    and runs `conf.scanMethod` behind it (per chunk: `conf` is the chunk's copy) -/\n")
	sb.WriteString("def engineInstallsFilterOfItsRange : Bool := " + leanBool(engineOK) + "\n\n")
	sb.WriteString("/-- `afpacket.Source`: link type Ethernet, `LinkTypeIPv4` iff vpn; `SetBPFFilter` compiles for that link type -/\n")
	sb.WriteString("def linkTypeFollowsVpn : Bool := " + leanBool(linkOK) + "\n\n")
	sb.WriteString(snapLenFacts())
	sb.WriteString("end SxVerif.Generated\n")
	writeLean("Wiring.lean", sb.String())
}

func orQ(s, dflt string) string {
	if s == "" {
		return dflt
	}
	return s
}
