package main

func genTCPFlags()  {}
func genWiring()    {}
func genStages()    {}
