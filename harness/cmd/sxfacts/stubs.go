package main

func genStages() {}
