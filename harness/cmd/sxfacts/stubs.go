package main

func genWiring()    {}
func genStages()    {}
