package main

// stages_engine.go — emits Generated/StagesEngine.lean: per goroutine/function ("stage") of the generic
// engine, the result channel, the logger and startScanEngine, the channels it receives from / sends to /
// closes, the ctx guarding each blocking operation, and the vocabulary calls it makes (vocabulary:
// lean/SxVerif/Model/StageDesc.lean).  Identifiers are resolved through their DECLARATION (go/ast
// objects), never through their spelling, so renaming a local variable does not change the output.

import (
	"fmt"
	"go/ast"
	"go/token"
	"sort"
	"strings"
)

type chanOp struct{ ch, guard string }

type stage struct {
	name         string
	recvs, sends []chanOp
	closes       []string
	calls        []string
	deferred     []*ast.CallExpr // scratch: deferred calls in source order
}

type param struct {
	obj       *ast.Object
	name, typ string
}

// ---------------------------------------------------------------- small AST helpers

func objOf(e ast.Expr) *ast.Object {
	if id, ok := e.(*ast.Ident); ok {
		return id.Obj
	}
	return nil
}

func paramAt(ft *ast.FuncType, i int) param {
	for _, f := range ft.Params.List {
		for _, n := range f.Names {
			if i == 0 {
				return param{n.Obj, n.Name, src(f.Type)}
			}
			i--
		}
	}
	return param{}
}

func recvOf(fd *ast.FuncDecl) param {
	if fd.Recv != nil && len(fd.Recv.List) == 1 && len(fd.Recv.List[0].Names) == 1 {
		n := fd.Recv.List[0].Names[0]
		return param{n.Obj, n.Name, strings.TrimPrefix(src(fd.Recv.List[0].Type), "*")}
	}
	return param{}
}

// getFunc never returns nil: a missing function is a problem and an empty function.
func getFunc(f *ast.File, recv, name string) *ast.FuncDecl {
	if fd := findFunc(f, recv, name); fd != nil && fd.Body != nil {
		return fd
	}
	problem("stages: func %s.%s not found", recv, name)
	return &ast.FuncDecl{Name: ast.NewIdent(name), Type: &ast.FuncType{Params: &ast.FieldList{}}, Body: &ast.BlockStmt{}}
}

// declRhs: the expression a `:=`-declared variable is initialised from, and its position among the results.
func declRhs(o *ast.Object) (ast.Expr, int) {
	if o == nil {
		return nil, -1
	}
	as, ok := o.Decl.(*ast.AssignStmt)
	if !ok {
		return nil, -1
	}
	for i, l := range as.Lhs {
		if objOf(l) == o {
			if len(as.Rhs) == len(as.Lhs) {
				return as.Rhs[i], 0
			} else if len(as.Rhs) == 1 {
				return as.Rhs[0], i
			}
		}
	}
	return nil, -1
}

func declCall(o *ast.Object) (*ast.CallExpr, int) {
	rhs, i := declRhs(o)
	c, _ := rhs.(*ast.CallExpr)
	return c, i
}

func isWaitGroup(o *ast.Object) bool {
	if o == nil {
		return false
	}
	switch d := o.Decl.(type) {
	case *ast.ValueSpec:
		return src(d.Type) == "sync.WaitGroup"
	case *ast.Field:
		return src(d.Type) == "*sync.WaitGroup"
	}
	return false
}

func findCalls(n ast.Node, match func(*ast.CallExpr) bool) (out []*ast.CallExpr) {
	ast.Inspect(n, func(n ast.Node) bool {
		if c, ok := n.(*ast.CallExpr); ok && match(c) {
			out = append(out, c)
		}
		return true
	})
	return
}

// srcCanon prints n with the given objects renamed (so textual comparison does not depend on their names).
func srcCanon(n ast.Node, names map[*ast.Object]string) string {
	var ids []*ast.Ident
	var old []string
	ast.Inspect(n, func(n ast.Node) bool {
		if id, ok := n.(*ast.Ident); ok && id.Obj != nil {
			if nn, ok := names[id.Obj]; ok {
				ids, old = append(ids, id), append(old, id.Name)
				id.Name = nn
			}
		}
		return true
	})
	s := src(n)
	for i, id := range ids {
		id.Name = old[i]
	}
	return s
}

// `case <-X.Done():` => X
func doneCtx(cc *ast.CommClause) ast.Expr {
	if es, ok := cc.Comm.(*ast.ExprStmt); ok {
		if u, ok := es.X.(*ast.UnaryExpr); ok && u.Op == token.ARROW {
			if c, ok := u.X.(*ast.CallExpr); ok && len(c.Args) == 0 {
				if sel, ok := c.Fun.(*ast.SelectorExpr); ok && sel.Sel.Name == "Done" {
					return sel.X
				}
			}
		}
	}
	return nil
}

// ---------------------------------------------------------------- scope: identifier resolution inside one function

type scope struct {
	fn       string
	recv     param
	roles    map[*ast.Object]string // channel variable -> Ch (explicit bindings; otherwise by declaration)
	ctxs     map[*ast.Object]string // ctx variable -> Guard
	fields   map[string]string      // <recv>.<field> used as channel -> Ch
	fieldCtx map[string]string      // <recv>.<field> used as ctx -> Guard
	cancel   *ast.Object            // startScanEngine: the derived ctx's cancel func
	engine   *ast.Object            // startScanEngine: the `engine` parameter
	conf     *ast.Object            // startScanEngine: the `conf` parameter
	inline   func(st *stage, c *ast.CallExpr) bool
	lits     map[string]*ast.FuncLit // startScanEngine: classified `go func(){…}()` literals
}

func newScope(fn string, recv param) *scope {
	return &scope{fn: fn, recv: recv, roles: map[*ast.Object]string{}, ctxs: map[*ast.Object]string{},
		fields: map[string]string{}, fieldCtx: map[string]string{}, lits: map[string]*ast.FuncLit{}}
}

func bind(m map[*ast.Object]string, o *ast.Object, v string) {
	if o != nil {
		m[o] = v
	}
}

// Rule 1: channel role of an expression, through the declaration of the identifier.
func (sc *scope) lookupRole(e ast.Expr) string {
	switch x := e.(type) {
	case *ast.ParenExpr:
		return sc.lookupRole(x.X)
	case *ast.CallExpr: // `<-time.After(d)`
		if src(x.Fun) == "time.After" {
			return "timer"
		}
	case *ast.SelectorExpr: // `c.internalResults`
		if o := objOf(x.X); o != nil && o == sc.recv.obj {
			return sc.fields[x.Sel.Name]
		}
	case *ast.Ident:
		o := x.Obj
		if o == nil {
			return ""
		}
		if r, ok := sc.roles[o]; ok {
			return r
		}
		if f, ok := o.Decl.(*ast.Field); ok { // parameter: by TYPE
			return map[string]string{"<-chan *Request": "requests", "chan<- error": "errc", "<-chan scan.Result": "results"}[src(f.Type)]
		}
		call, i := declCall(o)
		if call == nil {
			return ""
		}
		fun := src(call.Fun)
		switch {
		case fun == "make" && len(call.Args) == 1 && src(call.Args[0]) == "chan interface{}":
			return "done"
		case fun == "make" && len(call.Args) == 2 && src(call.Args[0]) == "chan error":
			return "errc"
		case strings.HasSuffix(fun, ".reqgen.GenerateRequests") && i == 0:
			return "requests"
		case fun == "time.After":
			return "timer"
		case sc.isEngineStart(call): // `done, errc := engine.Start(ctx, …)`: by position
			return []string{"done", "errc"}[i&1]
		}
	}
	return ""
}

func (sc *scope) role(e ast.Expr) string {
	if r := sc.lookupRole(e); r != "" {
		return r
	}
	problem("%s: channel %q has no recognised role", sc.fn, src(e))
	return "unknown"
}

// Rule 2: which ctx is X in `case <-X.Done():`
func (sc *scope) guard(x ast.Expr) string {
	if o := objOf(x); o != nil {
		if g, ok := sc.ctxs[o]; ok {
			return g
		}
	}
	if sel, ok := x.(*ast.SelectorExpr); ok && objOf(sel.X) != nil && objOf(sel.X) == sc.recv.obj {
		if g, ok := sc.fieldCtx[sel.Sel.Name]; ok {
			return g
		}
	}
	problem("%s: ctx %q is neither the derived nor the command ctx", sc.fn, src(x))
	return "unknown"
}

func (sc *scope) isEngineStart(c *ast.CallExpr) bool {
	sel, ok := c.Fun.(*ast.SelectorExpr)
	return ok && sel.Sel.Name == "Start" && sc.engine != nil && objOf(sel.X) == sc.engine
}

// `logger := conf.logger`
func (sc *scope) isLogger(o *ast.Object) bool {
	rhs, _ := declRhs(o)
	sel, ok := rhs.(*ast.SelectorExpr)
	return ok && sel.Sel.Name == "logger" && sc.conf != nil && objOf(sel.X) == sc.conf
}

// Rule 3: calls of the vocabulary ("" = not in the vocabulary, ignored).
func (sc *scope) classify(c *ast.CallExpr) string {
	switch f := c.Fun.(type) {
	case *ast.Ident:
		if f.Obj != nil && f.Obj == sc.cancel {
			return "cancel"
		}
	case *ast.SelectorExpr:
		full, m, x, r := src(f), f.Sel.Name, objOf(f.X), sc.recv.name
		switch {
		case full == "context.WithCancel":
			return "withCancel"
		case isWaitGroup(x) && (m == "Add" || m == "Done" || m == "Wait"):
			return "wg" + m
		case sc.isEngineStart(c):
			return "start"
		case m == "Error" && x != nil && (x == sc.recv.obj || sc.isLogger(x)):
			return "logError"
		case m == "LogResults" && sc.isLogger(x):
			return "logResults"
		case m == "Flush" && x != nil:
			if d, _ := declCall(x); d != nil && src(d.Fun) == "bufio.NewWriter" {
				return "flush"
			}
		case r != "" && full == r+".scanner.Scan":
			return "scan"
		case r != "" && full == r+".results.Put":
			return "put"
		case r != "" && full == r+".rw.Write":
			return "write"
		}
	}
	return ""
}

// `go func(){…}()` in startScanEngine, classified by its body.
func (sc *scope) classifyLit(f *ast.FuncLit) string {
	kinds := map[string]bool{}
	ast.Inspect(f.Body, func(n ast.Node) bool {
		switch x := n.(type) {
		case *ast.CallExpr:
			if sc.classify(x) == "logResults" {
				kinds["goLogger"] = true
			}
		case *ast.UnaryExpr:
			if x.Op == token.ARROW && sc.lookupRole(x.X) == "done" {
				kinds["goController"] = true
			}
		case *ast.RangeStmt:
			if sc.lookupRole(x.X) == "errc" {
				kinds["goDrain"] = true
			}
		}
		return true
	})
	if len(kinds) == 1 {
		for k := range kinds {
			return k
		}
	}
	return "unknown"
}

func (sc *scope) goStmt(st *stage, g *ast.GoStmt) {
	switch f := g.Call.Fun.(type) {
	case *ast.FuncLit:
		k := sc.classifyLit(f)
		st.calls = append(st.calls, k)
		if k == "unknown" || sc.lits[k] != nil {
			problem("%s: go func literal %q is unrecognised or duplicated", sc.fn, src(f))
		} else {
			sc.lits[k] = f
		}
		return
	case *ast.SelectorExpr: // `go e.worker(ctx, &wg, requests, errc)`
		if objOf(f.X) != nil && objOf(f.X) == sc.recv.obj && f.Sel.Name == "worker" {
			st.calls = append(st.calls, "goWorker")
			return
		}
	case *ast.Ident: // `go copyChans()`: the literal is a stage of its own
		if rhs, _ := declRhs(f.Obj); rhs != nil {
			if _, ok := rhs.(*ast.FuncLit); ok {
				return
			}
		}
	}
	problem("%s: unrecognised go statement %q", sc.fn, src(g))
	st.calls = append(st.calls, "unknown")
}

// select: every comm clause other than `case <-X.Done():` is an op guarded by X (none if there is no such clause).
func (sc *scope) selectStmt(st *stage, s *ast.SelectStmt) {
	g, n := "none", 0
	for _, c := range s.Body.List {
		cc := c.(*ast.CommClause)
		if cc.Comm == nil {
			problem("%s: select with a default clause", sc.fn)
		} else if x := doneCtx(cc); x != nil {
			if n++; n == 1 {
				g = sc.guard(x)
			} else {
				problem("%s: select with several Done clauses", sc.fn)
			}
		}
	}
	for _, c := range s.Body.List {
		cc := c.(*ast.CommClause)
		if cc.Comm != nil && doneCtx(cc) == nil {
			var rx ast.Expr
			switch m := cc.Comm.(type) {
			case *ast.SendStmt:
				st.sends = append(st.sends, chanOp{sc.role(m.Chan), g})
			case *ast.ExprStmt:
				rx = m.X
			case *ast.AssignStmt:
				if len(m.Rhs) == 1 {
					rx = m.Rhs[0]
				}
			}
			if u, ok := rx.(*ast.UnaryExpr); ok && u.Op == token.ARROW {
				st.recvs = append(st.recvs, chanOp{sc.role(u.X), g})
			} else if _, ok := cc.Comm.(*ast.SendStmt); !ok {
				problem("%s: unrecognised select case %q", sc.fn, src(cc.Comm))
			}
		}
		for _, b := range cc.Body {
			sc.walk(st, b)
		}
	}
}

func (sc *scope) call(st *stage, c *ast.CallExpr) {
	if id, ok := c.Fun.(*ast.Ident); ok && id.Name == "close" && id.Obj == nil && len(c.Args) == 1 {
		st.closes = append(st.closes, sc.role(c.Args[0]))
	} else if sc.inline != nil && sc.inline(st, c) {
	} else if v := sc.classify(c); v != "" {
		st.calls = append(st.calls, v)
	}
}

// walk collects ops and calls in source order; func literals are stages of their own and are not entered.
func (sc *scope) walk(st *stage, n ast.Node) {
	ast.Inspect(n, func(n ast.Node) bool {
		switch x := n.(type) {
		case *ast.FuncLit:
			return false
		case *ast.DeferStmt:
			st.deferred = append(st.deferred, x.Call)
			return false
		case *ast.GoStmt:
			sc.goStmt(st, x)
			return false
		case *ast.SelectStmt:
			sc.selectStmt(st, x)
			return false
		case *ast.RangeStmt: // `for … range ch`
			st.recvs = append(st.recvs, chanOp{sc.role(x.X), "none"})
			sc.walk(st, x.Body)
			return false
		case *ast.SendStmt:
			st.sends = append(st.sends, chanOp{sc.role(x.Chan), "none"})
		case *ast.UnaryExpr:
			if x.Op == token.ARROW {
				st.recvs = append(st.recvs, chanOp{sc.role(x.X), "none"})
			}
		case *ast.CallExpr:
			sc.call(st, x)
		}
		return true
	})
}

// runStage: body in source order, then the deferred calls in execution order (reverse defer order).
func (sc *scope) runStage(name string, body []ast.Stmt) stage {
	st := stage{name: name}
	for _, s := range body {
		sc.walk(&st, s)
	}
	for i := len(st.deferred) - 1; i >= 0; i-- {
		if _, ok := st.deferred[i].Fun.(*ast.FuncLit); ok {
			problem("%s: deferred func literal", sc.fn)
		}
		sc.call(&st, st.deferred[i])
	}
	return st
}

// argGuard: the guard of the ctx passed as first argument to the (unique) call selected by match.
func (sc *scope) argGuard(body ast.Node, what string, match func(*ast.CallExpr) bool) string {
	calls := findCalls(body, match)
	if len(calls) != 1 || len(calls[0].Args) == 0 {
		problem("%s: expected exactly one call of %s, found %d", sc.fn, what, len(calls))
		return "unknown"
	}
	return sc.guard(calls[0].Args[0])
}

func litBody(f *ast.FuncLit) []ast.Stmt {
	if f == nil {
		return nil
	}
	return f.Body.List
}

// ---------------------------------------------------------------- rule 2b: the command ctx reaches NewResultChan

func commandCtx() string {
	ok := true
	fail := func(format string, a ...interface{}) { problem("command ctx: "+format, a...); ok = false }
	nse := getFunc(parseFile("command/config.go"), "genericScanCmdOpts", "newScanEngine")
	p0 := paramAt(nse.Type, 0)
	rc := findCalls(nse.Body, func(c *ast.CallExpr) bool { return src(c.Fun) == "scan.NewResultChan" })
	if len(rc) != 1 || len(rc[0].Args) != 2 || p0.obj == nil || objOf(rc[0].Args[0]) != p0.obj {
		fail("newScanEngine does not pass its ctx parameter to exactly one scan.NewResultChan(ctx, N)")
	}
	for _, name := range []string{"docker", "elastic", "socks"} {
		f := parseFile("command/" + name + ".go")
		var runE *ast.FuncLit
		ast.Inspect(f, func(n ast.Node) bool {
			if kv, ok := n.(*ast.KeyValueExpr); ok && src(kv.Key) == "RunE" {
				runE, _ = kv.Value.(*ast.FuncLit)
			}
			return true
		})
		if runE == nil {
			fail("%s: no RunE func literal", name)
			continue
		}
		// `startScanEngine(ctx, engine, …)` with ctx from signal.NotifyContext and `engine := <opts>.new…ScanEngine(ctx)`
		starts := findCalls(runE.Body, func(c *ast.CallExpr) bool { return src(c.Fun) == "startScanEngine" })
		if len(starts) != 1 || len(starts[0].Args) < 2 {
			fail("%s: RunE has %d startScanEngine calls", name, len(starts))
			continue
		}
		cobj := objOf(starts[0].Args[0])
		if nc, i := declCall(cobj); nc == nil || i != 0 || src(nc.Fun) != "signal.NotifyContext" {
			fail("%s: startScanEngine is not given the signal.NotifyContext ctx", name)
			continue
		}
		mk, _ := declCall(objOf(starts[0].Args[1]))
		var sel *ast.SelectorExpr
		if mk != nil {
			sel, _ = mk.Fun.(*ast.SelectorExpr)
		}
		if sel == nil || !strings.HasPrefix(sel.Sel.Name, "new") || !strings.HasSuffix(sel.Sel.Name, "ScanEngine") ||
			len(mk.Args) != 1 || objOf(mk.Args[0]) != cobj {
			fail("%s: the engine given to startScanEngine is not built by new…ScanEngine(ctx) from the same ctx", name)
			continue
		}
		// `func (o *xCmdOpts) new…ScanEngine(ctx) { …; return o.newScanEngine(ctx, scanner) }`
		var md *ast.FuncDecl
		for _, d := range f.Decls {
			if fd, ok := d.(*ast.FuncDecl); ok && fd.Recv != nil && fd.Body != nil {
				if fd.Name.Name == sel.Sel.Name {
					md = fd
				} else if fd.Name.Name == "newScanEngine" {
					fail("%s: overrides newScanEngine", name)
				}
			}
		}
		if md == nil {
			fail("%s: method %s not found", name, sel.Sel.Name)
			continue
		}
		mp, mr := paramAt(md.Type, 0), recvOf(md)
		inner := findCalls(md.Body, func(c *ast.CallExpr) bool {
			s, ok := c.Fun.(*ast.SelectorExpr)
			return ok && s.Sel.Name == "newScanEngine" && mr.obj != nil && objOf(s.X) == mr.obj
		})
		if len(inner) != 1 || len(inner[0].Args) != 2 || mp.obj == nil || objOf(inner[0].Args[0]) != mp.obj {
			fail("%s: %s does not pass its ctx parameter to newScanEngine", name, sel.Sel.Name)
		}
	}
	if ok {
		return "command"
	}
	return "unknown"
}

// ---------------------------------------------------------------- the generator

type engineData struct {
	stages   []stage
	ctlOrder []string
	wiring   map[string]bool
	flags    [][2]string // (options type, "true"/"false")
	scalars  map[string]bool
}

var engineCmdFiles = []string{"arp", "docker", "elastic", "icmp", "socks", "tcp", "tcp_fin", "tcp_null", "tcp_syn", "tcp_xmas", "udp"}
var engineScalars = []string{"exitDelayConfig", "workersValidated", "workerCountWired", "rateLimitWraps", "workerBodyShape"}

func genStagesEngine() {
	d := &engineData{wiring: map[string]bool{}, scalars: map[string]bool{}}
	func() {
		defer func() {
			if r := recover(); r != nil {
				problem("stages_engine: internal error: %v", r)
			}
		}()
		d.extractStages()
		d.extractScalars()
	}()
	d.emit()
}

// `func WithX(p T) Opt { return func(c *S) { c.<field> = p } }`
func optionAssigns(fd *ast.FuncDecl, field string) bool {
	if len(fd.Body.List) != 1 {
		return false
	}
	ret, ok := fd.Body.List[0].(*ast.ReturnStmt)
	if !ok || len(ret.Results) != 1 {
		return false
	}
	fl, ok := ret.Results[0].(*ast.FuncLit)
	p, c := paramAt(fd.Type, 0), param{}
	if ok {
		c = paramAt(fl.Type, 0)
	}
	return ok && p.name != "" && c.name != "" && len(fl.Body.List) == 1 && src(fl.Body.List[0]) == c.name+"."+field+" = "+p.name
}

func (d *engineData) extractStages() {
	byName := map[string]stage{}
	engF, resF := parseFile("pkg/scan/engine.go"), parseFile("pkg/scan/result.go")
	root := parseFile("command/root.go")

	// ---- main = startScanEngine; its first statement `ctx, cancel := context.WithCancel(ctx)` makes every later `ctx` the derived one
	sse := getFunc(root, "", "startScanEngine")
	mainSc := newScope("startScanEngine", param{})
	p0 := paramAt(sse.Type, 0)
	mainSc.engine, mainSc.conf = paramAt(sse.Type, 1).obj, paramAt(sse.Type, 2).obj
	g := "unknown"
	if len(sse.Body.List) > 0 {
		if as, ok := sse.Body.List[0].(*ast.AssignStmt); ok && as.Tok == token.DEFINE && len(as.Lhs) == 2 && len(as.Rhs) == 1 &&
			p0.name != "" && src(as.Rhs[0]) == "context.WithCancel("+p0.name+")" && src(as.Lhs[0]) == p0.name {
			g, mainSc.cancel = "derived", objOf(as.Lhs[1])
			bind(mainSc.ctxs, objOf(as.Lhs[0]), g)
		}
	}
	if g == "unknown" {
		problem("startScanEngine: first statement is not `ctx, cancel := context.WithCancel(ctx)`")
	}
	bind(mainSc.ctxs, p0.obj, g)
	byName["main"] = mainSc.runStage("main", sse.Body.List)
	byName["controller"] = mainSc.runStage("controller", litBody(mainSc.lits["goController"]))
	byName["drain"] = mainSc.runStage("drain", litBody(mainSc.lits["goDrain"]))
	for _, k := range []string{"goLogger", "goController", "goDrain"} {
		if mainSc.lits[k] == nil {
			problem("startScanEngine: no %s goroutine", k)
		}
	}
	// controllerOrder: statements of the controller in execution order
	var late []string
	for _, s := range litBody(mainSc.lits["goController"]) {
		ev := "other"
		switch x := s.(type) {
		case *ast.DeferStmt:
			if mainSc.classify(x.Call) == "cancel" {
				late = append([]string{"cancel"}, late...)
			} else {
				late = append([]string{"other"}, late...)
			}
			continue
		case *ast.ExprStmt:
			if u, ok := x.X.(*ast.UnaryExpr); ok && u.Op == token.ARROW {
				if c, ok := u.X.(*ast.CallExpr); ok && src(c.Fun) == "time.After" && len(c.Args) == 1 {
					if sel, ok := c.Args[0].(*ast.SelectorExpr); ok && sel.Sel.Name == "exitDelay" && mainSc.conf != nil && objOf(sel.X) == mainSc.conf {
						ev = "timerExitDelay"
					}
				} else if mainSc.lookupRole(u.X) == "done" {
					ev = "recvDone"
				}
			} else if c, ok := x.X.(*ast.CallExpr); ok && mainSc.classify(c) == "cancel" {
				ev = "cancel"
			}
		}
		d.ctlOrder = append(d.ctlOrder, ev)
	}
	d.ctlOrder = append(d.ctlOrder, late...)

	// ---- Start (startEarly, supervisor): its ctx parameter is what startScanEngine passes to engine.Start
	start := getFunc(engF, "GenericEngine", "Start")
	startSc := newScope("GenericEngine.Start", recvOf(start))
	bind(startSc.ctxs, paramAt(start.Type, 0).obj, mainSc.argGuard(sse.Body, "engine.Start", mainSc.isEngineStart))
	var early []ast.Stmt
	var super *ast.FuncLit
	for _, s := range start.Body.List {
		switch x := s.(type) {
		case *ast.IfStmt: // `if err != nil {…}` with err the second result of GenerateRequests
			var c *ast.CallExpr
			i := -1
			if b, ok := x.Cond.(*ast.BinaryExpr); ok && b.Op == token.NEQ && src(b.Y) == "nil" && x.Init == nil && x.Else == nil {
				c, i = declCall(objOf(b.X))
			}
			if c != nil && i == 1 && strings.HasSuffix(src(c.Fun), ".reqgen.GenerateRequests") && early == nil {
				early = x.Body.List
			} else {
				problem("GenericEngine.Start: unrecognised if %q", src(x.Cond))
			}
		case *ast.GoStmt:
			if fl, ok := x.Call.Fun.(*ast.FuncLit); ok && super == nil {
				super = fl
			} else {
				problem("GenericEngine.Start: unrecognised go statement")
			}
		}
	}
	if early == nil || super == nil {
		problem("GenericEngine.Start: error branch or supervisor goroutine not found")
	}
	byName["startEarly"] = startSc.runStage("startEarly", early)
	byName["supervisor"] = startSc.runStage("supervisor", litBody(super))

	// ---- worker (+ writeError summarised at each call site); ctx parameter = what Start passes to e.worker
	worker, werr := getFunc(engF, "GenericEngine", "worker"), getFunc(engF, "", "writeError")
	workerSc := newScope("GenericEngine.worker", recvOf(worker))
	bind(workerSc.ctxs, paramAt(worker.Type, 0).obj, startSc.argGuard(start.Body, "e.worker", func(c *ast.CallExpr) bool {
		s, ok := c.Fun.(*ast.SelectorExpr)
		return ok && s.Sel.Name == "worker" && startSc.recv.obj != nil && objOf(s.X) == startSc.recv.obj
	}))
	workerSc.inline = func(st *stage, c *ast.CallExpr) bool {
		if id, ok := c.Fun.(*ast.Ident); !ok || id.Name != "writeError" {
			return false
		}
		if len(c.Args) != 3 {
			problem("worker: writeError call with %d arguments", len(c.Args))
			return true
		}
		we := newScope("writeError", param{})
		bind(we.ctxs, paramAt(werr.Type, 0).obj, workerSc.guard(c.Args[0]))
		bind(we.roles, paramAt(werr.Type, 1).obj, workerSc.role(c.Args[1]))
		sub := we.runStage("", werr.Body.List)
		st.recvs, st.sends = append(st.recvs, sub.recvs...), append(st.sends, sub.sends...)
		st.closes, st.calls = append(st.closes, sub.closes...), append(st.calls, sub.calls...)
		return true
	}
	byName["worker"] = workerSc.runStage("worker", worker.Body.List)
	d.scalars["workerBodyShape"] = workerShape(worker)
	d.scalars["workerCountWired"] = supervisorLoop(startSc, super)

	// ---- NewResultChan (copier) and Put: ctx = the command ctx; channels by the field of `&resultChan{…}` they are stored in
	nrc, put := getFunc(resF, "", "NewResultChan"), getFunc(resF, "resultChan", "Put")
	nrcSc, putSc := newScope("NewResultChan", param{}), newScope("resultChan.Put", recvOf(put))
	bind(nrcSc.ctxs, paramAt(nrc.Type, 0).obj, commandCtx())
	var copier *ast.FuncLit
	for _, s := range nrc.Body.List {
		switch x := s.(type) {
		case *ast.GoStmt: // `go copyChans()`
			if rhs, _ := declRhs(objOf(x.Call.Fun)); rhs != nil && copier == nil {
				copier, _ = rhs.(*ast.FuncLit)
			}
		case *ast.ReturnStmt:
			if len(x.Results) == 1 && strings.HasPrefix(src(x.Results[0]), "&resultChan{") {
				for _, el := range x.Results[0].(*ast.UnaryExpr).X.(*ast.CompositeLit).Elts {
					kv, ok := el.(*ast.KeyValueExpr)
					if !ok {
						continue
					}
					switch k := src(kv.Key); k {
					case "ctx":
						putSc.fieldCtx["ctx"] = nrcSc.guard(kv.Value)
					case "results", "internalResults":
						if c, _ := declCall(objOf(kv.Value)); c != nil && src(c.Fun) == "make" && len(c.Args) == 2 && src(c.Args[0]) == "chan Result" {
							bind(nrcSc.roles, objOf(kv.Value), k)
							putSc.fields[k] = k
						}
					}
				}
			}
		}
	}
	if copier == nil || len(putSc.fields) != 2 || len(nrcSc.roles) != 2 {
		problem("NewResultChan: copier goroutine or the `&resultChan{results:, internalResults:}` literal not recognised")
	}
	byName["copier"] = nrcSc.runStage("copier", litBody(copier))
	byName["put"] = putSc.runStage("put", put.Body.List)

	// ---- logger.LogResults: ctx parameter = what startScanEngine passes to logger.LogResults
	lr := getFunc(parseFile("command/log/logger.go"), "logger", "LogResults")
	logSc := newScope("logger.LogResults", recvOf(lr))
	bind(logSc.ctxs, paramAt(lr.Type, 0).obj, mainSc.argGuard(sse.Body, "logger.LogResults", func(c *ast.CallExpr) bool {
		return mainSc.classify(c) == "logResults"
	}))
	byName["logger"] = logSc.runStage("logger", lr.Body.List)

	for _, n := range []string{"startEarly", "supervisor", "worker", "put", "copier", "logger", "controller", "drain", "main"} {
		st := byName[n]
		st.name = n
		d.stages = append(d.stages, st)
	}
}

// supervisor: `for i := 1; i <= e.workerCount; i++ { wg.Add(1); go e.worker(…) }`
func supervisorLoop(sc *scope, super *ast.FuncLit) bool {
	for _, s := range litBody(super) {
		if f, ok := s.(*ast.ForStmt); ok {
			st := sc.runStage("", f.Body.List)
			return src(f.Init) == "i := 1" && src(f.Cond) == "i <= "+sc.recv.name+".workerCount" && src(f.Post) == "i++" &&
				len(f.Body.List) == 2 && fmt.Sprint(st.calls) == "[wgAdd goWorker]"
		}
	}
	return false
}

// worker: `defer wg.Done(); for { select { case <-ctx.Done(): return; case r, ok := <-requests: <five statements> } }`
func workerShape(w *ast.FuncDecl) bool {
	names := map[*ast.Object]string{}
	for i, n := range []string{"ctx", "wg", "requests", "errc"} {
		bind(names, paramAt(w.Type, i).obj, n)
	}
	bind(names, recvOf(w).obj, "e")
	var sel *ast.SelectStmt
	for _, s := range w.Body.List {
		if f, ok := s.(*ast.ForStmt); ok && f.Init == nil && f.Cond == nil && f.Post == nil && len(f.Body.List) == 1 {
			sel, _ = f.Body.List[0].(*ast.SelectStmt)
		}
	}
	if sel == nil || len(sel.Body.List) != 2 {
		return false
	}
	want := []string{"if !ok { return }", "if r.Err != nil { writeError(ctx, errc, r.Err) continue }", "result, err := e.scanner.Scan(ctx, r)",
		"if err != nil { writeError(ctx, errc, err) continue }", "if result != nil { e.results.Put(result) }"}
	seen := 0
	for _, c := range sel.Body.List {
		cc := c.(*ast.CommClause)
		if cc.Comm == nil {
			return false
		}
		switch srcCanon(cc.Comm, names) {
		case "<-ctx.Done()":
			if len(cc.Body) != 1 || src(cc.Body[0]) != "return" {
				return false
			}
			seen |= 1
		case "r, ok := <-requests":
			if len(cc.Body) != len(want) {
				return false
			}
			for i, s := range cc.Body {
				if srcCanon(s, names) != want[i] {
					return false
				}
			}
			seen |= 2
		}
	}
	return seen == 3
}

// Rule 4: scalars
func (d *engineData) extractScalars() {
	root, cfg, engF := parseFile("command/root.go"), parseFile("command/config.go"), parseFile("pkg/scan/engine.go")

	// exitDelayWiring: `newEngineConfig(…, withExitDelay(<X>.exitDelay), …)` somewhere in the command file
	for _, name := range engineCmdFiles {
		found := false
		for _, c := range findCalls(parseFile("command/"+name+".go"), func(c *ast.CallExpr) bool { return src(c.Fun) == "newEngineConfig" }) {
			for _, a := range c.Args {
				if w, ok := a.(*ast.CallExpr); ok && src(w.Fun) == "withExitDelay" && len(w.Args) == 1 {
					if s, ok := w.Args[0].(*ast.SelectorExpr); ok && s.Sel.Name == "exitDelay" {
						found = true
					}
				}
			}
		}
		d.wiring[name] = found
	}

	// exitDelayFlags: `cmd.Flags().DurationVar(&o.exitDelay, "exit-delay", defaultExitDelay, …)` per options type
	for _, dcl := range cfg.Decls {
		fd, ok := dcl.(*ast.FuncDecl)
		if !ok || fd.Recv == nil || fd.Body == nil {
			continue
		}
		r := recvOf(fd)
		for _, c := range findCalls(fd.Body, func(c *ast.CallExpr) bool {
			s, ok := c.Fun.(*ast.SelectorExpr)
			return ok && s.Sel.Name == "DurationVar" && len(c.Args) >= 3 && src(c.Args[1]) == `"exit-delay"`
		}) {
			good := src(c.Fun) == "cmd.Flags().DurationVar" && src(c.Args[0]) == "&"+r.name+".exitDelay" && src(c.Args[2]) == "defaultExitDelay"
			d.flags = append(d.flags, [2]string{r.typ, leanBool(good)})
		}
	}
	sort.Slice(d.flags, func(i, j int) bool { return d.flags[i][0] < d.flags[j][0] })
	if len(d.flags) != 2 {
		problem("exit-delay: expected 2 DurationVar registrations in command/config.go, found %d", len(d.flags))
	}

	// exitDelayConfig: `&engineConfig{exitDelay: defaultExitDelay}` and `c.exitDelay = exitDelay`
	hasDefault := false
	ast.Inspect(getFunc(root, "", "newEngineConfig").Body, func(n ast.Node) bool {
		if cl, ok := n.(*ast.CompositeLit); ok && src(cl.Type) == "engineConfig" {
			for _, el := range cl.Elts {
				hasDefault = hasDefault || src(el) == "exitDelay: defaultExitDelay"
			}
		}
		return true
	})
	d.scalars["exitDelayConfig"] = hasDefault && optionAssigns(getFunc(root, "", "withExitDelay"), "exitDelay")

	// workersValidated: `if o.workers <= 0 { return <non-nil error> }` at the top level of parseRawOptions
	pro := getFunc(cfg, "genericScanCmdOpts", "parseRawOptions")
	for _, s := range pro.Body.List {
		if x, ok := s.(*ast.IfStmt); ok && x.Init == nil && src(x.Cond) == recvOf(pro).name+".workers <= 0" && len(x.Body.List) == 1 {
			if ret, ok := x.Body.List[0].(*ast.ReturnStmt); ok && len(ret.Results) == 1 && src(ret.Results[0]) != "nil" {
				d.scalars["workersValidated"] = true
			}
		}
	}

	// workerCountWired (the loop header was checked with the supervisor) and rateLimitWraps
	nse := getFunc(cfg, "genericScanCmdOpts", "newScanEngine")
	o, scanner := recvOf(nse).name, paramAt(nse.Type, 1)
	mk := findCalls(nse.Body, func(c *ast.CallExpr) bool { return src(c.Fun) == "scan.NewScanEngine" })
	passed, sameScanner := false, false
	if len(mk) == 1 {
		for _, a := range mk[0].Args {
			passed = passed || src(a) == "scan.WithScanWorkerCount("+o+".workers)"
		}
		sameScanner = len(mk[0].Args) > 1 && scanner.obj != nil && objOf(mk[0].Args[1]) == scanner.obj
	}
	d.scalars["workerCountWired"] = d.scalars["workerCountWired"] && passed &&
		optionAssigns(getFunc(engF, "", "WithScanWorkerCount"), "workerCount")
	wraps := false
	if len(nse.Body.List) > 0 {
		if x, ok := nse.Body.List[0].(*ast.IfStmt); ok && x.Init == nil && x.Else == nil && src(x.Cond) == o+".rateCount > 0" && len(x.Body.List) == 1 {
			if as, ok := x.Body.List[0].(*ast.AssignStmt); ok && as.Tok == token.ASSIGN && len(as.Lhs) == 1 && len(as.Rhs) == 1 && objOf(as.Lhs[0]) == scanner.obj {
				c, ok := as.Rhs[0].(*ast.CallExpr)
				wraps = ok && src(c.Fun) == "scan.NewRateLimitScanner" && len(c.Args) == 2 && objOf(c.Args[0]) == scanner.obj
			}
		}
	}
	rls := getFunc(engF, "rateLimitScanner", "Scan")
	s := recvOf(rls).name
	// `Take()` as a statement, or made in a goroutine and awaited against ctx.Done() (limiter.go: interruptibleTake)
	body := rls.Body.List
	takeFirst := len(body) == 2 && src(body[0]) == s+".limiter.Take()"
	if callee, ok := interruptibleTake(body, []string{paramAt(rls.Type, 0).name, paramAt(rls.Type, 1).name}); ok && len(body) == 4 {
		takeFirst = strings.Join(callee, ".") == s+".limiter.Take"
		body = body[2:]
	}
	d.scalars["rateLimitWraps"] = wraps && sameScanner && takeFirst && len(body) == 2 &&
		src(body[1]) == "return "+s+".Scanner.Scan("+paramAt(rls.Type, 0).name+", "+paramAt(rls.Type, 1).name+")"
}

// ---------------------------------------------------------------- output

func leanOps(ops []chanOp) string {
	q := make([]string, len(ops))
	for i, o := range ops {
		q[i] = "⟨." + o.ch + ", ." + o.guard + "⟩"
	}
	return "[" + strings.Join(q, ", ") + "]"
}

func leanEnums(l []string) string {
	q := make([]string, len(l))
	for i, s := range l {
		q[i] = "." + s
	}
	return "[" + strings.Join(q, ", ") + "]"
}

func (d *engineData) emit() {
	var sb strings.Builder
	sb.WriteString("import SxVerif.Model.StageDesc\nnamespace SxVerif.Generated\nopen SxVerif.StageDesc\n\n")
	sb.WriteString("/-- goroutines / functions of the generic engine, the result channel, the logger and startScanEngine -/\n")
	sb.WriteString("def engineStages : List Stage := [\n")
	for i, st := range d.stages {
		sep := ","
		if i == len(d.stages)-1 {
			sep = ""
		}
		sb.WriteString(fmt.Sprintf("  { name := .%s, recvs := %s, sends := %s, closes := %s, calls := %s }%s\n",
			st.name, leanOps(st.recvs), leanOps(st.sends), leanEnums(st.closes), leanEnums(st.calls), sep))
	}
	sb.WriteString("]\n\n/-- what the controller goroutine does, in execution order -/\n")
	sb.WriteString("def controllerOrder : List CtlEvent := " + leanEnums(d.ctlOrder) + "\n\n")

	pairs := func(l [][2]string) string {
		q := make([]string, len(l))
		for i, p := range l {
			q[i] = "(" + leanStr(p[0]) + ", " + p[1] + ")"
		}
		return "[" + strings.Join(q, ", ") + "]"
	}
	var wiring [][2]string
	for _, n := range engineCmdFiles {
		wiring = append(wiring, [2]string{n, leanBool(d.wiring[n])})
	}
	sb.WriteString("/-- per command file: does its RunE pass `withExitDelay(<opts>.exitDelay)` to the engine configuration -/\n")
	sb.WriteString("def exitDelayWiring : List (String × Bool) := " + pairs(wiring) + "\n\n")
	sb.WriteString("/-- per options struct: `--exit-delay` is a DurationVar on `o.exitDelay` with default `defaultExitDelay` -/\n")
	sb.WriteString("def exitDelayFlags : List (String × Bool) := " + pairs(d.flags) + "\n\n")
	docs := map[string]string{
		"exitDelayConfig":  "`newEngineConfig` starts from `exitDelay: defaultExitDelay` and `withExitDelay` assigns `c.exitDelay`",
		"workersValidated": "`parseRawOptions` of the generic options refuses `workers <= 0`",
		"workerCountWired": "`newScanEngine` passes `scan.WithScanWorkerCount(o.workers)`, the option assigns `s.workerCount`, and `Start` loops `for i := 1; i <= e.workerCount; i++`",
		"rateLimitWraps":   "`newScanEngine` wraps the scanner in `NewRateLimitScanner` iff `o.rateCount > 0`; `rateLimitScanner.Scan` is `Take()` (possibly awaited against ctx.Done()) then the delegate's `Scan`",
		"workerBodyShape":  "worker body has the recognised shape: one `Scan` per ok request, `writeError`+`continue` on `r.Err != nil` and on a scan error, `Put` iff `result != nil`",
	}
	for _, n := range engineScalars {
		sb.WriteString(fmt.Sprintf("/-- %s -/\ndef %s : Bool := %s\n\n", docs[n], n, leanBool(d.scalars[n])))
		all["stagesEngine."+n] = d.scalars[n]
	}
	sb.WriteString("end SxVerif.Generated\n")
	writeLean("StagesEngine.lean", sb.String())
	all["stagesEngine.exitDelayWiring"] = d.wiring
	all["stagesEngine.exitDelayFlags"] = d.flags
	all["stagesEngine.controllerOrder"] = d.ctlOrder
}
