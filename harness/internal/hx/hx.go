// Package hx: shared plumbing of the differential harness — one PRNG, case emission, statistics.
package hx

import (
	"bufio"
	"encoding/hex"
	"encoding/json"
	"fmt"
	"math/rand"
	"os"
	"sort"
	"strings"
)

// Run collects the cases of one component run.
type Run struct {
	Component string
	Seed      int64
	Tier      string
	Rng       *rand.Rand
	w         *bufio.Writer
	f         *os.File

	Evaluations int
	classes     map[string]int // non-trivial class -> count
	Hist        map[string]int // free-form distribution counters
	Samples     []string
	Rule        string
	Notes       []string
}

func NewRun(component string, seed int64, tier, casesPath string) *Run {
	f, err := os.Create(casesPath)
	if err != nil {
		panic(err)
	}
	return &Run{Component: component, Seed: seed, Tier: tier, Rng: rand.New(rand.NewSource(seed)),
		w: bufio.NewWriterSize(f, 1<<20), f: f, classes: map[string]int{}, Hist: map[string]int{}}
}

// Case emits one line: tag \t input fields… \t go-output.  `class` names the non-trivial class this
// case belongs to ("" = trivial); distinct_nontrivial is the number of distinct classes seen.
func (r *Run) Case(class string, fields ...string) {
	for _, f := range fields {
		if strings.ContainsAny(f, "\t\n") {
			panic("field contains tab/newline: " + f)
		}
	}
	line := strings.Join(fields, "\t")
	r.w.WriteString(line)
	r.w.WriteByte('\n')
	r.Evaluations++
	if class != "" {
		r.classes[class]++
	}
	if len(r.Samples) < 5 || (len(r.Samples) < 12 && r.Rng.Intn(50) == 0) {
		s := line
		if len(s) > 300 {
			s = s[:300] + "…"
		}
		r.Samples = append(r.Samples, s)
	}
}

func (r *Run) Count(key string) { r.Hist[key]++ }

func (r *Run) Close(statsPath string) {
	r.w.Flush()
	r.f.Close()
	keys := make([]string, 0, len(r.classes))
	for k := range r.classes {
		keys = append(keys, k)
	}
	sort.Strings(keys)
	st := map[string]interface{}{
		"component":           r.Component,
		"seed":                r.Seed,
		"tier":                r.Tier,
		"evaluations":         r.Evaluations,
		"distinct_nontrivial": len(r.classes),
		"rule":                r.Rule,
		"samples":             r.Samples,
		"histogram":           r.Hist,
		"notes":               r.Notes,
	}
	if len(keys) <= 40 {
		st["classes"] = keys
	} else {
		st["classes_sample"] = keys[:40]
	}
	data, _ := json.MarshalIndent(st, "", " ")
	if err := os.WriteFile(statsPath, data, 0o644); err != nil {
		panic(err)
	}
}

func Hex(b []byte) string {
	if len(b) == 0 {
		return "-"
	}
	return hex.EncodeToString(b)
}

func HexS(s string) string { return Hex([]byte(s)) }

func UnHex(s string) []byte {
	if s == "-" {
		return nil
	}
	b, err := hex.DecodeString(s)
	if err != nil {
		panic(err)
	}
	return b
}

func Itoa(v interface{}) string { return fmt.Sprint(v) }

// Recover runs f and reports a recovered panic as (true, message).
func Recover(f func()) (panicked bool, msg string) {
	defer func() {
		if e := recover(); e != nil {
			panicked = true
			msg = fmt.Sprint(e)
		}
	}()
	f()
	return
}
