#!/bin/sh
# tools/mkworkspace.sh <name>: private clone of /verif and /repo for a builder agent (see AGENT_GUIDE.md)
set -e
n="$1"; [ -n "$n" ] || { echo "usage: mkworkspace.sh <name>"; exit 2; }
w=/tmp/w-$n
rm -rf "$w"; mkdir -p "$w"
git clone -q /verif "$w/verif"
git -C "$w/verif" checkout -q -b "agent-$n"
git clone -q /repo "$w/repo"
cp -r /verif/lean/.lake "$w/verif/lean/.lake"
mkdir -p "$w/verif/lean/SxVerif/Generated" "$w/verif/harness/bin"
cp /verif/lean/SxVerif/Generated/*.lean "$w/verif/lean/SxVerif/Generated/" 2>/dev/null || true
cp /repo/go.sum "$w/verif/harness/go.sum"
sed -i "s#=> /repo#=> $w/repo#" "$w/verif/harness/go.mod"
git -C "$w/verif" update-index --assume-unchanged harness/go.mod
git -C "$w/verif" config user.name builder; git -C "$w/verif" config user.email builder@example.invalid
git -C "$w/repo" config user.name builder; git -C "$w/repo" config user.email builder@example.invalid
echo "$w"
