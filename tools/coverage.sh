#!/bin/bash
# Which statements of /repo do the differential components execute?  (Validation of the tie H, not a proof: a function
# that no component reaches is modelled but never compared — or not modelled at all.)
#   tools/coverage.sh [tier]      -> coverage/REPORT.md (+ coverage/func.txt)
set -u
V=$(cd "$(dirname "$0")/.." && pwd)
TIER=${1:-quick}
export GOFLAGS=-mod=mod GOPROXY=off GOSUMDB=off GOTOOLCHAIN=local
W=$(mktemp -d /var/tmp/sxcov.XXXXXX)
trap 'rm -rf "$W" "$V/harness/bin/sxdiff-cov"' EXIT
mkdir -p "$W/cov" "$W/work" "$V/coverage"
cd "$V/harness" || exit 2
cp /repo/go.sum . 2>/dev/null
go build -tags verif -cover -coverpkg=github.com/v-byte-cpu/sx/... -o "$V/harness/bin/sxdiff-cov" ./cmd/sxdiff || exit 2
COMPS=$(python3 - <<P
import sys; sys.path.insert(0, "$V/tools")
import registry
s = []
for p in registry.PROPS.values():
    for c in p["components"]:
        if c not in s: s.append(c)
print(" ".join(s))
P
)
for c in $COMPS; do
  echo "== $c"
  ( cd "$W/work" && GOCOVERDIR="$W/cov" VERIF_COVER=1 VERIF_WORK="$W/work" VERIF_REPO=/repo GOMEMLIMIT=6GiB \
      timeout 1500 "$V/harness/bin/sxdiff-cov" "$c" -seed 1 -tier "$TIER" -cases "$W/work/$c.cases" -stats "$W/work/$c.stats.json" >/dev/null 2>"$W/work/$c.err" ) \
    || echo "   (component $c exited non-zero: $(tail -1 "$W/work/$c.err"))"
  rm -f "$W/work/$c.cases"
done
go tool covdata func -i="$W/cov" 2>/dev/null | grep "v-byte-cpu/sx/" | grep -v "_verif.go" > "$V/coverage/func.txt"
go tool covdata percent -i="$W/cov" 2>/dev/null | grep "v-byte-cpu/sx" > "$V/coverage/pkg.txt"
python3 - "$V" "$TIER" <<'P'
import sys, re, collections
V, tier = sys.argv[1], sys.argv[2]
rows = []
for l in open(V + "/coverage/func.txt"):
    m = re.match(r"(\S+):(\d+):\s+(\S+)\s+([\d.]+)%", l)
    if m:
        rows.append((m.group(1).replace("github.com/v-byte-cpu/sx/", ""), int(m.group(2)), m.group(3), float(m.group(4))))
zero = [r for r in rows if r[3] == 0.0]
part = [r for r in rows if 0 < r[3] < 60]
with open(V + "/coverage/REPORT.md", "w") as f:
    f.write("# Statement coverage of /repo under the differential components (tier %s, seed 1)\n\n" % tier)
    f.write("Regenerate with `tools/coverage.sh [tier]`. Hooks (`*_verif.go`) excluded. This measures what the tie H *executes*;\nit is evidence about the reach of the correspondence check, not a proof of anything.\n\n")
    f.write("## per package\n\n```\n" + open(V + "/coverage/pkg.txt").read() + "```\n\n")
    f.write("## functions never executed (%d of %d)\n\n" % (len(zero), len(rows)))
    for r in zero:
        f.write("- `%s:%d` %s\n" % (r[0], r[1], r[2]))
    f.write("\n## functions executed below 60 %% (%d)\n\n" % len(part))
    for r in part:
        f.write("- `%s:%d` %s — %.1f%%\n" % r)
print("functions:", len(rows), "never executed:", len(zero), "below 60%:", len(part))
P
