#!/bin/sh
# tools/seedtest.sh <seeded-id> [tier]: apply seeded/<id>/patch.diff to /repo, run the check of the property it
# breaks, undo the patch.  Prints the check's tail and DETECTED / MISSED.
id="$1"; tier="${2:-quick}"
d=/verif/seeded/$id
pid=$(python3 -c "import json;print(json.load(open('$d/meta.json'))['property'])")
git -C /repo diff --quiet || { echo "/repo is dirty"; exit 2; }
git -C /repo apply "$d/patch.diff" || { echo "patch does not apply"; exit 2; }
cp /verif/evidence/$pid.json /tmp/seedtest-evidence-$pid.json 2>/dev/null
cd /verif && ./check "$pid" --tier "$tier" > /tmp/seedtest-$id.log 2>&1; rc=$?
cp /verif/evidence/$pid.json /tmp/seedtest-$id.evidence.json 2>/dev/null; cp /tmp/seedtest-evidence-$pid.json /verif/evidence/$pid.json 2>/dev/null   # evidence of a seeded run is not evidence
git -C /repo checkout -- . ; git -C /repo clean -fdq -- . 2>/dev/null
tail -5 /tmp/seedtest-$id.log
if [ $rc -ne 0 ] && grep -q "^VIOLATION property=$pid" /tmp/seedtest-$id.log; then echo "SEED $id: DETECTED (rc=$rc)"; else echo "SEED $id: MISSED (rc=$rc)"; fi
