#!/bin/sh
# tools/seedtest.sh <seeded-id> [tier]: apply seeded/<id>/patch.diff to /repo, run the check of the property it
# breaks, undo the patch.  Prints the check's tail and DETECTED / MISSED.
# (SEED_VERIF / SEED_REPO: run in a private clone made by tools/mkworkspace.sh instead — used by tools/seedall_par.sh)
id="$1"; tier="${2:-quick}"
V="${SEED_VERIF:-/verif}"; R="${SEED_REPO:-/repo}"
tag=$(echo "$V" | tr '/' '_')
d=/verif/seeded/$id
pid=$(python3 -c "import json;print(json.load(open('$d/meta.json'))['property'])")
git -C "$R" diff --quiet || { echo "$R is dirty"; exit 2; }
git -C "$R" apply "$d/patch.diff" || { echo "patch does not apply"; exit 2; }
cp "$V/evidence/$pid.json" /tmp/seedtest-evidence$tag-$pid.json 2>/dev/null
cd "$V" && VERIF_REPO="$R" ./check "$pid" --tier "$tier" > /tmp/seedtest-$id.log 2>&1; rc=$?
cp "$V/evidence/$pid.json" /tmp/seedtest-$id.evidence.json 2>/dev/null; cp /tmp/seedtest-evidence$tag-$pid.json "$V/evidence/$pid.json" 2>/dev/null   # evidence of a seeded run is not evidence
git -C "$R" checkout -- . ; git -C "$R" clean -fdq -- . 2>/dev/null
tail -5 /tmp/seedtest-$id.log
if [ $rc -ne 0 ] && grep -q "^VIOLATION property=$pid" /tmp/seedtest-$id.log; then echo "SEED $id: DETECTED (rc=$rc)"; else echo "SEED $id: MISSED (rc=$rc)"; fi
