#!/usr/bin/env python3
"""check — one property, one run.

  ./check C04 [--tier quick|thorough] [--replay PATH]

What a run does (DESIGN.md §3/§4):
  1. sxfacts /repo            -> lean/SxVerif/Generated/*.lean (regenerated from the current tree)
  2. lake build Props.Cxx     -> the property theorems are re-checked against the regenerated facts
     + axiom audit (#print axioms ⊆ {propext, Classical.choice, Quot.sound}) + forbidden-token grep
  3. sxdiff <components>      -> real code (go build -tags verif from /repo) vs. the model (sxdriver),
                                 Spec predicate evaluated on the output observed from the real code
  4. evidence/Cxx.json
  5. exit 0, or the violation protocol: a broken obligation / correspondence triggers the property's
     failing-input search; VIOLATION line with a replay file; `no-failing-input-found` when the search
     finds no concrete input.
"""
import argparse, fcntl, glob, hashlib, json, os, re, resource, shutil, subprocess, sys, time

VERIF = os.path.dirname(os.path.dirname(os.path.abspath(__file__)))
REPO = os.environ.get("VERIF_REPO", "/repo")
LEAN = os.path.join(VERIF, "lean")
HARN = os.path.join(VERIF, "harness")
GEN = os.path.join(LEAN, "SxVerif", "Generated")
ALLOWED_AXIOMS = {"propext", "Classical.choice", "Quot.sound"}
FORBIDDEN = re.compile(r"\bsorry\b|\badmit\b|^axiom |native_decide|bv_decide|implemented_by|\bunsafe |maxHeartbeats 0")

GOENV = dict(os.environ, GOFLAGS="-mod=mod", GOPROXY="off", GOSUMDB="off", GOTOOLCHAIN="local",
             CGO_ENABLED="1")

sys.path.insert(0, os.path.join(VERIF, "tools"))
import registry  # noqa: E402  (per-property configuration)


def _limits():
    # a runaway `decide` must not eat the machine: cap the address space of every child (Lean needs a
    # large reservation for its threads; 48 GiB is enough and still below physical memory)
    resource.setrlimit(resource.RLIMIT_AS, (48 << 30, 48 << 30))


def sh(cmd, cwd=None, env=None, timeout=None, stdin=None, stdout=subprocess.PIPE, limit=False):
    t0 = time.time()
    try:
        p = subprocess.run(cmd, cwd=cwd, env=env, stdin=stdin, stdout=stdout, stderr=subprocess.STDOUT,
                           timeout=timeout, text=True if stdout == subprocess.PIPE else None,
                           preexec_fn=_limits if limit else None)
    except subprocess.TimeoutExpired as e:
        out = e.stdout or ""
        if isinstance(out, bytes):
            out = out.decode("utf-8", "replace")
        return 124, out + "\n[timeout after %ss]" % timeout, time.time() - t0
    return p.returncode, (p.stdout if stdout == subprocess.PIPE else ""), time.time() - t0


class Ctx:
    """state of one check run"""

    def __init__(self, pid, tier, seed):
        self.pid, self.tier, self.seed = pid, tier, seed
        self.work = os.path.join(VERIF, ".work", pid)
        shutil.rmtree(self.work, ignore_errors=True)
        os.makedirs(self.work, exist_ok=True)
        os.makedirs(os.path.join(VERIF, "replays"), exist_ok=True)
        os.makedirs(os.path.join(VERIF, "evidence"), exist_ok=True)
        self.violations = []      # (replay_path, found_input: bool, summary)
        self.known = []           # KNOWN-FINDING lines
        self.coverage = {"obligations": 0, "discharged": 0, "evaluations": 0, "distinct_nontrivial": 0,
                         "samples": [], "components": {}, "axioms": {}}
        self.notes = []
        self.t0 = time.time()

    def log(self, *a):
        print("[check %s]" % self.pid, *a, flush=True)

    # ---- violation bookkeeping ----
    def violation(self, kind, summary, detail, found_input):
        """kind: 'proof' | 'correspondence' | 'spec' | 'audit' | 'build'"""
        h = hashlib.sha1((kind + summary + json.dumps(detail, sort_keys=True, default=str)).encode()).hexdigest()[:10]
        path = os.path.join(VERIF, "replays", "%s-%s-%s.json" % (self.pid, kind, h))
        rec = {"property_id": self.pid, "kind": kind, "summary": summary, "seed": self.seed, "tier": self.tier,
               "failing_input_found": bool(found_input), "detail": detail,
               "replay_cmd": "./check %s --replay %s" % (self.pid, os.path.relpath(path, VERIF))}
        # known finding?
        for kf in registry.known_findings(self.pid):
            if kf["matcher"](rec):
                self.known.append("KNOWN-FINDING: property=%s %s" % (self.pid, kf["text"]))
                return
        with open(path, "w") as f:
            json.dump(rec, f, indent=1, default=str)
        self.violations.append((path, bool(found_input), summary))


def with_lock(fn):
    os.makedirs(os.path.join(VERIF, ".work"), exist_ok=True)
    with open(os.path.join(VERIF, ".work", "lock"), "w") as lk:
        fcntl.flock(lk, fcntl.LOCK_EX)
        try:
            return fn()
        finally:
            fcntl.flock(lk, fcntl.LOCK_UN)


def build_tools(ctx):
    """go build sxfacts + sxdiff against the CURRENT /repo tree (hooks on), regenerate facts."""
    os.makedirs(os.path.join(HARN, "bin"), exist_ok=True)
    # go.sum follows the repo
    try:
        shutil.copyfile(os.path.join(REPO, "go.sum"), os.path.join(HARN, "go.sum"))
    except OSError:
        pass
    rc, out, _ = sh(["go", "build", "-o", "bin/sxfacts", "./cmd/sxfacts"], cwd=HARN, env=GOENV)
    if rc != 0:
        ctx.log(out)
        raise SystemExit("sxfacts does not build (framework error)")
    rc, out, _ = sh(["bin/sxfacts", REPO, GEN, os.path.join(HARN, "facts.json")], cwd=HARN, env=GOENV)
    if rc != 0:
        ctx.log(out)
        ctx.violation("build", "translator could not read the tree", {"output": out[-3000:]}, False)
        return False
    rc, out, _ = sh(["go", "build", "-tags", "verif", "-o", "bin/sxdiff", "./cmd/sxdiff"], cwd=HARN, env=GOENV)
    if rc != 0:
        ctx.log(out[-3000:])
        ctx.violation("build", "harness does not compile against the current tree (hooks on)",
                      {"output": out[-3000:], "names": "go build -tags verif ./cmd/sxdiff"}, False)
        return False
    # the same harness with the Go race detector compiled in (real code and harness alike): see race_pass
    cfg = registry.PROPS.get(ctx.pid, {})
    if any((c[0] if isinstance(c, tuple) else c) in registry.RACE_COMPONENTS for c in cfg.get("components", [])):
        rc, out, _ = sh(["go", "build", "-race", "-tags", "verif", "-o", "bin/sxdiff-race", "./cmd/sxdiff"], cwd=HARN,
                        env=dict(GOENV, CGO_ENABLED="1"))
        ctx.have_race = rc == 0
        if rc != 0:
            ctx.notes.append("race-enabled harness did not build: the race pass is skipped (%s)" % out[-300:])
    return True


def race_pass(ctx, comp):
    """The component once more, on the same seed, with the Go race detector compiled into the real code: schedules are
    sampled, but the detector reports two unsynchronised accesses even when THIS run happened to order them
    harmlessly — the concrete failing schedule of a 'works unless two workers meet' change.  A report is a violation
    with a failing input: component + seed re-run it, the goroutine stacks are in the replay file."""
    if not getattr(ctx, "have_race", False):
        return
    logp = os.path.join(ctx.work, "race-" + comp)
    for f in glob.glob(logp + ".*"):
        os.remove(f)
    cmd = [os.path.join(HARN, "bin", "sxdiff-race"), comp, "-seed", str(ctx.seed), "-tier", "quick",
           "-cases", os.path.join(ctx.work, comp + ".race.cases"), "-stats", os.path.join(ctx.work, comp + ".race.stats.json")]
    env = dict(GOENV, GOMEMLIMIT="8GiB", VERIF_WORK=ctx.work, VERIF_REPO=REPO, VERIF_RACE="1",
               GORACE="log_path=%s halt_on_error=0 history_size=3" % logp)
    rc, out, dt = sh(cmd, cwd=ctx.work, env=env, timeout=900)
    try:
        os.remove(os.path.join(ctx.work, comp + ".race.cases"))
    except OSError:
        pass
    reports = sorted(glob.glob(logp + ".*"))
    nrep = 0
    for f in reports:
        txt = open(f, errors="replace").read()
        for rep in txt.split("==================")[1:]:
            if "DATA RACE" not in rep:
                continue
            nrep += 1
            if nrep <= 2:
                # the frames of /repo (not of the harness) name the racing code
                frames = [l.strip() for l in rep.split("\n") if "/repo/" in l or "v-byte-cpu/sx/" in l][:12]
                ctx.violation("spec", "%s: data race in the real code under the race detector" % comp,
                              {"component": comp, "race": True, "where": frames, "report": rep[:6000],
                               "rerun": "harness/bin/sxdiff-race %s -seed %d -tier quick (GORACE=halt_on_error=1)" % (comp, ctx.seed)}, True)
    ctx.coverage["components"].setdefault(comp, {})["race_pass"] = {"reports": nrep, "harness_s": round(dt, 2), "rc": rc}
    ctx.log("component %-12s race pass: %d report(s) (%.1fs)" % (comp, nrep, dt))


THEOREM_RE = re.compile(r"^theorem\s+([A-Za-z0-9_'.]+)", re.M)
NAMESPACE_RE = re.compile(r"^namespace\s+([A-Za-z0-9_.]+)", re.M)


def prop_theorems(module):
    path = os.path.join(LEAN, module.replace(".", "/") + ".lean")
    src = open(path).read()
    ns = NAMESPACE_RE.search(src)
    prefix = (ns.group(1) + ".") if ns else ""
    return [prefix + t for t in THEOREM_RE.findall(src)], src


def lake_build(ctx, targets):
    rc, out, dt = sh(["lake", "build"] + targets, cwd=LEAN, timeout=1500, limit=True)
    return rc, out, dt


def proofs(ctx, cfg):
    """build the property module(s); audit axioms; returns True when every obligation is discharged"""
    mods = cfg["modules"]
    thms = []
    for m in mods:
        t, src = prop_theorems(m)
        thms += t
    ctx.coverage["obligations"] = len(thms)
    rc, out, dt = lake_build(ctx, mods + ["sxdriver"])
    ctx.coverage["checker_cmd"] = "cd lean && lake build %s sxdriver  (Lean 4.33.0 kernel; %.1fs)" % (" ".join(mods), dt)
    if rc != 0:
        ctx.log("lake build FAILED")
        tail = out[-6000:]
        ctx.log(tail)
        # which theorems / files broke
        broken = sorted(set(re.findall(r"error: ([^\s:]+\.lean):(\d+):\d+", out)))
        ctx.coverage["discharged"] = 0
        ctx.broken_build = {"files": broken, "output_tail": tail}
        return False
    # forbidden tokens (comments stripped crudely: drop `--` tails and /- -/ blocks)
    bad = []
    for root, _, files in os.walk(os.path.join(LEAN, "SxVerif")):
        for fn in files:
            if fn.endswith(".lean"):
                s = open(os.path.join(root, fn)).read()
                s = re.sub(r"/-.*?-/", "", s, flags=re.S)
                for i, line in enumerate(s.split("\n")):
                    line = line.split("--")[0]
                    if FORBIDDEN.search(line):
                        bad.append("%s:%d:%s" % (os.path.relpath(os.path.join(root, fn), LEAN), i + 1, line.strip()[:80]))
    if bad:
        ctx.violation("audit", "forbidden token in Lean sources", {"hits": bad}, False)
    # axiom audit
    scratch = os.path.join(ctx.work, "Axioms.lean")
    with open(scratch, "w") as f:
        for m in mods:
            f.write("import %s\n" % m)
        for t in thms:
            f.write("#print axioms %s\n" % t)
    rc, out, _ = sh(["lake", "env", "lean", scratch], cwd=LEAN, timeout=900, limit=True)
    axioms = {}
    for m in re.finditer(r"'([^']+)' depends on axioms: \[([^\]]*)\]", out):
        axioms[m.group(1)] = [a.strip() for a in m.group(2).replace("\n", " ").split(",") if a.strip()]
    for m in re.finditer(r"'([^']+)' does not depend on any axioms", out):
        axioms[m.group(1)] = []
    ctx.coverage["axioms"] = axioms
    ok = True
    for t in thms:
        if t not in axioms:
            ctx.violation("audit", "no axiom report for theorem " + t, {"output": out[-2000:]}, False)
            ok = False
        elif not set(axioms[t]) <= ALLOWED_AXIOMS:
            ctx.violation("audit", "theorem %s uses axioms outside the trusted base" % t, {"axioms": axioms[t]}, False)
            ok = False
    ctx.coverage["discharged"] = len([t for t in thms if t in axioms and set(axioms[t]) <= ALLOWED_AXIOMS])
    if ctx.tier == "thorough":
        # independent re-check of the compiled property modules and the proof modules they import
        for m in mods:
            rc, out, dt = sh(["lake", "env", "leanchecker", m], cwd=LEAN, timeout=1500, limit=True)
            ctx.coverage.setdefault("leanchecker", {})[m] = {"rc": rc, "seconds": round(dt, 1)}
            if rc != 0:
                ctx.violation("audit", "leanchecker rejects " + m, {"output": out[-3000:]}, False)
                ok = False
    ctx.coverage["theorems"] = thms
    return ok and not bad


def run_component(ctx, comp, extra_args=None):
    """sxdiff component -> cases; sxdriver -> answers; diff.  Returns list of disagreements."""
    cases = os.path.join(ctx.work, comp + ".cases")
    stats = os.path.join(ctx.work, comp + ".stats.json")
    outp = os.path.join(ctx.work, comp + ".model")
    cmd = [os.path.join(HARN, "bin", "sxdiff"), comp, "-seed", str(ctx.seed), "-tier", ctx.tier,
           "-cases", cases, "-stats", stats] + (extra_args or [])
    env = dict(GOENV, GOMEMLIMIT="6GiB", VERIF_WORK=ctx.work, VERIF_REPO=REPO)
    if os.environ.get("VERIF_SEARCH"):
        env["VERIF_SEARCH"] = os.environ["VERIF_SEARCH"]
    rc, out, dt = sh(cmd, cwd=ctx.work, env=env, timeout=registry.component_timeout(ctx.tier))
    if rc != 0:
        ctx.log(out[-3000:])
        ctx.violation("correspondence", "harness component %s crashed or timed out (rc=%d)" % (comp, rc),
                      {"component": comp, "output": out[-3000:]}, False)
        return
    with open(cases) as fin, open(outp, "w") as fout:
        rc2, _, dt2 = sh([os.path.join(LEAN, ".lake", "build", "bin", "sxdriver")], stdin=fin, stdout=fout, timeout=3600)
    if rc2 != 0:
        ctx.violation("correspondence", "model driver failed on component %s (rc=%d)" % (comp, rc2), {"component": comp}, False)
        return
    st = json.load(open(stats))
    clines = open(cases).read().split("\n")
    mlines = open(outp).read().split("\n")
    if clines and clines[-1] == "":
        clines.pop()
    if mlines and mlines[-1] == "":
        mlines.pop()
    ndis, nspec = 0, 0
    if len(clines) != len(mlines):
        ctx.violation("correspondence", "driver answered %d of %d cases in %s" % (len(mlines), len(clines), comp), {}, False)
        return
    for c, m in zip(clines, mlines):
        cf = c.split("\t")
        observed = cf[-1]
        mf = m.split("\t")
        model_out, verdict = mf[0], mf[-1]
        if verdict != "1":
            nspec += 1
            if nspec <= 3:
                ctx.violation("spec", "%s: the Spec predicate fails on the output of the real code" % comp,
                              {"component": comp, "case": cf[:-1], "observed": observed[:4000], "model": model_out[:4000]}, True)
        elif observed != model_out:
            ndis += 1
            deep = registry.DEEP_SEARCH.get(cf[0])
            if deep and ndis <= 2:
                w = deep(ctx, cf)
                if w:
                    ctx.violation("spec", "%s: model and implementation disagree, and a failing input was found from that state" % comp,
                                  dict(w, component=comp, case=cf[:-1]), True)
                    continue
            if ndis <= 3:
                ctx.violation("correspondence", "%s: model and implementation disagree (Spec still holds on this case)" % comp,
                              {"component": comp, "case": cf[:-1], "observed": observed[:4000], "model": model_out[:4000],
                               "names": "correspondence " + comp}, False)
    cov = ctx.coverage
    cov["evaluations"] += st["evaluations"]
    cov["distinct_nontrivial"] += st["distinct_nontrivial"]
    cov["samples"] += st["samples"][:4]
    cov["components"][comp] = {"evaluations": st["evaluations"], "distinct_nontrivial": st["distinct_nontrivial"],
                               "rule": st["rule"], "histogram": st["histogram"], "disagreements": ndis,
                               "spec_failures": nspec, "harness_s": round(dt, 2), "driver_s": round(dt2, 2),
                               "notes": st.get("notes", [])}
    ctx.log("component %-12s cases=%d classes=%d disagreements=%d spec_failures=%d (%.1fs+%.1fs)" %
            (comp, st["evaluations"], st["distinct_nontrivial"], ndis, nspec, dt, dt2))
    if comp in registry.RACE_COMPONENTS and not extra_args and not os.environ.get("VERIF_SEARCH"):
        race_pass(ctx, comp)


def default_search(ctx, broken):
    """a proof obligation is broken and the ordinary run found no failing input: run the property's components once
    more in search mode (VERIF_SEARCH=1: the harness adds its slow / wide cases, e.g. thousands of consecutive read
    failures, reply floods over several port chunks)"""
    cfg = registry.PROPS[ctx.pid]
    for comp in cfg.get("components", []):
        if any(f for _, f, _ in ctx.violations):
            break
        if isinstance(comp, tuple):
            run_component(ctx, comp[0], list(comp[1]))
        else:
            run_component(ctx, comp)


def write_evidence(ctx, cfg):
    cov = ctx.coverage
    rules = "; ".join("%s: %s" % (k, v["rule"]) for k, v in cov["components"].items())
    cov["rule"] = rules or cfg.get("rule", "proof obligations only")
    cov["trusted_base"] = registry.COMMON_TRUSTED + cfg.get("trusted_base", [])
    if not cov["samples"]:
        cov["samples"] = cov.get("theorems", [])[:5] or ["(none)"]
    cov["exhaustive"] = False
    ev = {"property_id": ctx.pid, "tier": ctx.tier, "seed": ctx.seed, "level": "proof",
          "coverage": cov, "assumptions": cfg.get("assumptions", []), "wall_s": round(time.time() - ctx.t0, 2),
          "violations": len(ctx.violations), "known_findings": ctx.known, "notes": ctx.notes}
    with open(os.path.join(VERIF, "evidence", ctx.pid + ".json"), "w") as f:
        json.dump(ev, f, indent=1, default=str)


def main():
    ap = argparse.ArgumentParser()
    ap.add_argument("pid")
    ap.add_argument("--tier", default=os.environ.get("VERIF_TIER", "quick"))
    ap.add_argument("--replay")
    a = ap.parse_args()
    seed = int(os.environ.get("VERIF_SEED", "1") or "1")
    cfg = registry.PROPS.get(a.pid)
    if cfg is None:
        print("unknown property", a.pid)
        return 2
    ctx = Ctx(a.pid, a.tier, seed)
    if a.replay:
        return registry.replay(ctx, cfg, a.replay)

    def locked():
        ok = build_tools(ctx)
        pr = False
        if ok:
            pr = proofs(ctx, cfg)
        return ok, pr
    ok, pr = with_lock(locked)
    if ok:
        proof_broken = (not pr) and getattr(ctx, "broken_build", None)
        # correspondence (needs the driver; if the Lean build broke, rebuild just the driver)
        have_driver = pr or with_lock(lambda: lake_build(ctx, ["sxdriver"])[0] == 0)
        if have_driver:
            for comp in cfg.get("components", []):
                if isinstance(comp, tuple):
                    run_component(ctx, comp[0], list(comp[1]))
                else:
                    run_component(ctx, comp)
        else:
            ctx.violation("correspondence", "model driver does not build", {"names": "lake build sxdriver"}, False)
        for extra in cfg.get("extra", []):
            extra(ctx)
        if proof_broken:
            # a proof obligation no longer checks.  The components above ARE the failing-input search on
            # the real code (Spec verdicts on observed outputs); a property-specific deeper search may follow.
            found = any(f for _, f, _ in ctx.violations)
            srch = cfg.get("search") or default_search
            if not found and srch:
                try:
                    os.environ["VERIF_SEARCH"] = "1"
                    srch(ctx, ctx.broken_build)
                    found = any(f for _, f, _ in ctx.violations)
                except Exception as e:  # the search must never mask the broken obligation
                    ctx.notes.append("search raised %r" % (e,))
            if found:
                ctx.notes.append("proof obligation broken (lake build %s); failing input(s) found, see the spec violations" % " ".join(cfg["modules"]))
                ctx.coverage["broken_obligation"] = ctx.broken_build
            else:
                ctx.violation("proof", "proof obligation no longer checks",
                              {"names": "lake build " + " ".join(cfg["modules"]), "broken": ctx.broken_build}, False)
    write_evidence(ctx, cfg)
    for k in ctx.known:
        print(k)
    if ctx.violations:
        for path, found, summary in ctx.violations:
            tail = "" if found else " no-failing-input-found"
            print("VIOLATION property=%s replay=%s%s" % (ctx.pid, os.path.relpath(path, VERIF), tail))
        return 1
    ctx.log("OK  obligations=%d discharged=%d evaluations=%d wall=%.1fs" % (
        ctx.coverage["obligations"], ctx.coverage["discharged"], ctx.coverage["evaluations"], time.time() - ctx.t0))
    return 0


if __name__ == "__main__":
    sys.exit(main())
