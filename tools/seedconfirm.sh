#!/bin/bash
# tools/seedconfirm.sh <PID> <N> <pkgdir>: confirm a seeded change produced by a breaker agent in /tmp/mut-<PID>/out:
#   patch applies + builds + whole existing suite passes + demo fails with patch + demo passes without.
# On success copies it to /verif/seeded/<PID>-<N>/ (patch.diff, demo_test.go, meta.json with "confirmed").
export GOFLAGS=-mod=mod GOPROXY=off GOSUMDB=off GOTOOLCHAIN=local CGO_ENABLED=1
pid=$1; n=$2; pkg=$3; wt=${4:-/tmp/mut-$pid}; sid=${5:-$pid-$n}; out=$wt/out
cd $wt || exit 2
if [ -d _out ]; then rm -rf out; elif [ -d out ]; then mv out _out; fi
out=$wt/_out
git checkout -q -- . ; git clean -fdq -e _out
git apply _out/patch$n.diff || { echo "APPLY-FAIL"; exit 1; }
go build ./... || { echo "BUILD-FAIL"; git checkout -q -- .; exit 1; }
go vet -tags verif ./command/ ./pkg/... >/dev/null 2>&1
go build -tags verif ./... || { echo "BUILD-VERIF-FAIL"; }
pk=./...
if go test -vet=off -count=1 $pk > /tmp/seedconfirm-$sid.suite 2>&1; then echo "suite passes with patch"; else echo "SUITE-FAILS-WITH-PATCH"; tail -20 /tmp/seedconfirm-$sid.suite; git checkout -q -- .; exit 1; fi
cp _out/demo${n}_test.go $pkg/zz_demo${n}_test.go
if go test -vet=off -count=1 -run 'Demo|demo|ZZ' ./$pkg/ > /tmp/seedconfirm-$sid.with 2>&1; then echo "DEMO-PASSES-WITH-PATCH (bad)"; rm $pkg/zz_demo${n}_test.go; git checkout -q -- .; exit 1; else echo "demo fails with patch"; fi
git checkout -q -- .
if go test -vet=off -count=1 -run 'Demo|demo|ZZ' ./$pkg/ > /tmp/seedconfirm-$sid.without 2>&1; then echo "demo passes without patch"; else echo "DEMO-FAILS-WITHOUT-PATCH (bad)"; tail -20 /tmp/seedconfirm-$sid.without; rm $pkg/zz_demo${n}_test.go; exit 1; fi
rm $pkg/zz_demo${n}_test.go
d=/verif/seeded/$sid; mkdir -p $d
cp _out/patch$n.diff $d/patch.diff; cp _out/demo${n}_test.go $d/demo_test.go
python3 - <<P
import json
m=json.load(open("$out/meta$n.json"))
m["property"]="$pid"; m["demo_pkg_dir"]="$pkg"
m["confirmed"]={"by":"tools/seedconfirm.sh in a scratch worktree of /repo","patch_applies":True,"builds":True,"existing_suite_passes_with_patch":True,"demo_fails_with_patch":True,"demo_passes_without_patch":True}
json.dump(m,open("$d/meta.json","w"),indent=1)
P
echo "CONFIRMED $sid"
