#!/bin/sh
# tools/seedtestp.sh <seeded-id> <PID> [tier]: like seedtest.sh, but runs the check of ANOTHER property (which of the
# existing components see this change?)
id="$1"; pid="$2"; tier="${3:-quick}"
d=/verif/seeded/$id
git -C /repo diff --quiet || { echo "/repo is dirty"; exit 2; }
git -C /repo apply "$d/patch.diff" || { echo "patch does not apply"; exit 2; }
cp /verif/evidence/$pid.json /tmp/seedtest-evidence-$pid.json 2>/dev/null
cd /verif && ./check "$pid" --tier "$tier" > /tmp/seedtestp-$id-$pid.log 2>&1; rc=$?
cp /tmp/seedtest-evidence-$pid.json /verif/evidence/$pid.json 2>/dev/null
git -C /repo checkout -- . ; git -C /repo clean -fdq -- . 2>/dev/null
grep -h "spec_failures=[1-9]\|disagreements=[1-9]\|^VIOLATION" /tmp/seedtestp-$id-$pid.log | head -4 | cut -c1-160
echo "SEED $id under $pid: rc=$rc"
