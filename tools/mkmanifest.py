#!/usr/bin/env python3
"""Writes MANIFEST.json from tools/registry.py (claimed checks) and properties.jsonl (everything else)."""
import json, os, subprocess, sys
VERIF = os.path.dirname(os.path.dirname(os.path.abspath(__file__)))
sys.path.insert(0, os.path.join(VERIF, "tools"))
import registry

props = [json.loads(l) for l in open(os.path.join(VERIF, "properties.jsonl"))]
hooks = subprocess.run(["git", "-C", "/repo", "log", "--format=%H %s"], capture_output=True, text=True).stdout.split("\n")
hook_commits = [l.split()[0] for l in hooks if "verif hook" in l]
checks, na = [], []
for p in props:
    pid = p["id"]
    cfg = registry.PROPS.get(pid)
    if cfg is None:
        na.append({"property_id": pid, "reason": registry.NOT_CLAIMED.get(pid, "check not built yet in this round; see DESIGN.md §7 for the planned model and theorem")})
        continue
    checks.append({
        "property_id": pid,
        "quick_cmd": "./check %s --tier quick" % pid,
        "thorough_cmd": "./check %s --tier thorough" % pid,
        "evidence_file": "evidence/%s.json" % pid,
        "replay_cmd_template": "./check %s --replay {path}" % pid,
        "engine": "lean4-proof+correspondence",
        "level_claimed": {"category": "proof", "text": cfg["level_text"], "design_ref": cfg.get("design_ref", "DESIGN.md §7 " + pid)},
        "level_note": cfg["level_note"],
        "technique": cfg.get("technique", "Lean 4 theorem about an executable model; model tied to /repo by regenerated facts (sxfacts) and differential correspondence (sxdiff)"),
    })
m = {
    "version": 1,
    "setup_cmd": "./setup.sh",
    "hooks": {
        "guard": "verif",
        "enable": "go build -tags verif (harness module replaces github.com/v-byte-cpu/sx by /repo)",
        "baseline_off_cmd": "cd /repo && GOFLAGS=-mod=mod go test -json -vet=off -count=1 -timeout 25m ./...",
        "source_commits": hook_commits,
        "add_only": True,
    },
    "engines": [
        {"name": "lean4-proof+correspondence", "path": "lean/ harness/ tools/check.py",
         "serves_properties": [c["property_id"] for c in checks],
         "kind_free_text": "Lean 4 model + theorems (lean/SxVerif), translator sxfacts (regenerates lean/SxVerif/Generated from /repo), differential harness sxdiff + compiled Lean driver sxdriver"},
    ],
    "checks": checks,
    "not_applicable": na,
    "notes": "All checks: exit 0 / exit 1 + VIOLATION line; evidence rewritten on every run; KNOWN_FINDINGS.txt lists recorded findings and fixed defects.",
}
json.dump(m, open(os.path.join(VERIF, "MANIFEST.json"), "w"), indent=1)
print("checks:", [c["property_id"] for c in checks], "not_applicable:", len(na))
