#!/usr/bin/env python3
"""Prompts + scratch worktrees for one round of independent 'breaker' sub-agents.

usage: tools/mkbreakerprompts.py <round> [prefer-text-file]
  -> /tmp/mutprompts/<id>-r<round>.md and a git worktree /tmp/mut<round>-<id> of /repo HEAD for every property.
A breaker is given ONLY the property text (never anything from /verif); the list of ideas already used comes from
seeded/*/meta.json so that rounds do not repeat each other.  Confirm what comes back with tools/seedconfirm.sh.
"""
import json, os, subprocess, sys, glob
rnd = sys.argv[1]
prefer = open(sys.argv[2]).read().strip() if len(sys.argv) > 2 else ""
V = os.path.dirname(os.path.dirname(os.path.abspath(__file__)))
os.makedirs("/tmp/mutprompts", exist_ok=True)
for line in open(os.path.join(V, "properties.jsonl")):
    p = json.loads(line)
    pid = p["id"]
    if os.environ.get("ONLY") and pid not in os.environ["ONLY"].split(","):
        continue
    wt = f"/tmp/mut{rnd}-{pid}"
    if not os.path.isdir(wt):
        subprocess.run(["git", "-C", "/repo", "worktree", "add", "-q", "--detach", wt, "HEAD"], check=True)
    used = []
    for m in sorted(glob.glob(os.path.join(V, "seeded", pid + "-*", "meta.json"))):
        try:
            used.append(" - " + json.load(open(m))["summary"][:150].replace("\n", " "))
        except Exception:
            pass
    txt = f"""You are given a scratch git worktree of the Go project v-byte-cpu/sx (a command-line network scanner) at {wt}.
Work ONLY inside {wt}. Do not read, list or touch anything under /verif or /repo (this is an independence requirement
of the experiment). Go is offline: use `export GOFLAGS=-mod=mod GOPROXY=off GOSUMDB=off GOTOOLCHAIN=local` in every shell call.
Files named *_verif.go (build tag `verif`) are test hooks: ignore them and do not modify them.

A semantic property that sx is supposed to satisfy:

  {pid} — {p['title']}
  "{p['statement']}"
  Quantified over: {p['quantifier']['text']}
  Code it is anchored in: {', '.join(p['anchors']['files'])}

YOUR JOB: produce 2 different changes to sx's non-test Go source, each of which BREAKS this property while the project still
compiles and ALL existing tests still pass (`cd {wt} && go build ./... && go test -vet=off -count=1 ./...`; the
suite takes a few minutes). Requirements for each change:
 * it needs something specific to manifest — a particular interleaving, a crash or fault at a particular point, a
   multi-step sequence of operations, an unusual input, or two cooperating sites that each look fine alone — NOT something
   that ordinary use would expose at once;
 * it looks like something a developer could plausibly commit (a refactor, an optimisation, a "bug fix", a boundary tweak);
 * the 2 changes touch different mechanisms of the property (different functions / different clauses of the statement);
 * a demonstration: a Go test (new file, e.g. {wt}/<pkg>/zz_demo{{N}}_test.go, package-internal tests are fine) or a small
   program that FAILS with the change and PASSES without it. Verify both directions yourself.
Deliver into {wt}/_out/ for N = 1..2:
   patch{{N}}.diff   — `git diff` of the non-test source change only (must apply with `git apply` to a clean checkout of HEAD)
   demo{{N}}_test.go — the demonstration, with a first-line comment naming the package directory it must be placed in and
                      the exact `go test -run …` command
   meta{{N}}.json    — {{"property": "{pid}", "summary": "...", "needs_to_manifest": "...", "files_touched": [...],
                      "demo_cmd": "...", "existing_tests_pass": true, "demo_fails_with_patch": true, "demo_passes_without_patch": true}}
Do NOT use `git stash` (the stash is shared between worktrees). A directory whose name starts with _ is ignored by go.
{prefer}
Earlier experiments already used these ideas for this property — choose DIFFERENT mechanisms, clauses and code sites:
{chr(10).join(used)}
At the end restore the worktree source to HEAD (`git -C {wt} checkout -- . && git -C {wt} clean -fd -e _out`) keeping only _out/.
Final reply: a short list of what each change does and what it needs to manifest."""
    open(f"/tmp/mutprompts/{pid}-r{rnd}.md", "w").write(txt)
    print(pid, wt, len(used), "earlier ideas")
