"""Per-property configuration of the check runner."""
import json, os, re, subprocess

VERIF = os.path.dirname(os.path.dirname(os.path.abspath(__file__)))

COMMON_TRUSTED = [
    "Lean 4.33.0 kernel (thorough tier re-checks the property module with leanchecker)",
    "axioms: at most propext, Classical.choice, Quot.sound (audited per theorem on every run; no sorry/native_decide/bv_decide/own axioms)",
    "sxfacts (go/ast translator, harness/cmd/sxfacts): reports the AST faithfully; its output is plain data checked by the kernel or cross-checked dynamically by sxdiff",
    "sxdiff (harness/cmd/sxdiff): differential correspondence model vs. real code, generator quality bounds what it sees",
]


def component_timeout(tier):
    return 900 if tier == "quick" else 3600


def known_findings(pid):
    """KNOWN_FINDINGS.txt: `finding: property=C05 id=<id> match=<regex> :: <text>`; `fixed:` lines suppress nothing."""
    out = []
    path = os.path.join(VERIF, "KNOWN_FINDINGS.txt")
    if not os.path.exists(path):
        return out
    for line in open(path):
        line = line.strip()
        m = re.match(r"finding:\s+property=(\S+)\s+id=(\S+)\s+match=(\S+)\s+::\s+(.*)$", line)
        if not m or m.group(1) != pid:
            continue
        rx = re.compile(m.group(3))

        def matcher(rec, rx=rx):
            return bool(rx.search(json.dumps(rec.get("detail", {}), sort_keys=True, default=str)))
        out.append({"id": m.group(2), "matcher": matcher, "text": "id=%s %s" % (m.group(2), m.group(4))})
    return out


def replay(ctx, cfg, path):
    """re-run one recorded case on the real code and on the model"""
    rec = json.load(open(path if os.path.isabs(path) else os.path.join(VERIF, path)))
    print(json.dumps(rec, indent=1)[:4000])
    d = rec.get("detail", {})
    if "case" in d and "component" in d:
        import check
        check.with_lock(lambda: check.build_tools(ctx))
        check.with_lock(lambda: check.lake_build(ctx, ["sxdriver"]))
        cases = os.path.join(ctx.work, "replay.cases")
        line = "\t".join(d["case"])
        p = subprocess.run([os.path.join(check.HARN, "bin", "sxdiff"), "replay", "-cases", cases], input=line + "\n",
                           text=True, capture_output=True, env=check.GOENV)
        print(p.stdout, p.stderr)
        if os.path.exists(cases):
            with open(cases) as fin:
                q = subprocess.run([os.path.join(check.LEAN, ".lake", "build", "bin", "sxdriver")], stdin=fin,
                                   text=True, capture_output=True)
            obs = open(cases).read().rstrip("\n").split("\t")[-1]
            ans = q.stdout.rstrip("\n").split("\t")
            print("observed now :", obs[:2000])
            print("model        :", ans[0][:2000])
            print("spec verdict :", ans[-1])
            if ans[-1] != "1":
                print("VIOLATION property=%s replay=%s" % (ctx.pid, path))
                return 1
            if ans[0] != obs:
                print("VIOLATION property=%s replay=%s no-failing-input-found" % (ctx.pid, path))
                return 1
            return 0
    print("replay record names a broken obligation; re-run ./check %s to re-decide it" % ctx.pid)
    return 0


# ------------------------------------------------------------------ C04 search
def search_c04(ctx, broken):
    """table edit -> look for (n, draws) on which the REAL iterator is not a permutation.
    Runs the correspondence component with the thorough generator; its Spec verdicts are the search."""
    return None  # the generic component run that follows performs the search (Spec on real outputs)


# ------------------------------------------------------------------ C07: race-detector run (thorough tier)
def race_pipeline(ctx):
    """thorough tier: the pipeline component once more, built with -race (supporting evidence only)"""
    if ctx.tier != "thorough":
        return
    import check
    exe = os.path.join(check.HARN, "bin", "sxdiff-race")
    rc, out, _ = check.sh(["go", "build", "-race", "-tags", "verif", "-o", exe, "./cmd/sxdiff"], cwd=check.HARN, env=check.GOENV)
    if rc != 0:
        ctx.notes.append("race build not available: " + out[-300:])
        return
    rc, out, dt = check.sh([exe, "pipeline", "-seed", str(ctx.seed), "-tier", "quick", "-cases", os.path.join(ctx.work, "race.cases"),
                            "-stats", os.path.join(ctx.work, "race.stats.json")], cwd=ctx.work,
                           env=dict(check.GOENV, GORACE="halt_on_error=0"), timeout=1200)
    ctx.notes.append("race-detector run of sxdiff pipeline: rc=%d, %.1fs, DATA RACE reports: %d" % (rc, dt, out.count("DATA RACE")))
    if "DATA RACE" in out or rc != 0:
        ctx.violation("correspondence", "race detector reports a data race (or the race build crashed) in the packet pipeline run",
                      {"component": "pipeline-race", "output": out[-3000:]}, False)


NOT_CLAIMED = {}

PROPS = {
    "C04": {
        "modules": ["SxVerif.Props.C04"],
        "components": ["iter"],
        "search": search_c04,
        "trusted_base": [
            "Mathlib v4.33.0 (ZMod, orderOf, lucas_primality) — checked by the same kernel",
            "modelled, not verified: math/big Exp/Mul/Mod as Nat arithmetic; math/rand as two arbitrary draws; sort.Search as the loop in its source",
        ],
        "assumptions": ["math/big arithmetic is exact", "rand.Int63 returns a value in [0, 2^63)"],
        "level_text": "Lean theorems C04_perm / C04_reject / table_ok over the cyclicGroups table regenerated from range.go on every run: for every n in 1..2^32+60 and every pair of draws the model iterator terminates and emits a permutation of 1..n; other sizes are rejected. Pratt certificates for all 32 rows are re-derived and kernel-checked each run. The algorithm model is tied to the code by differential runs of the real iterator.",
        "level_note": "Trusted: Lean kernel + Mathlib; sxfacts reads the table faithfully; math/big = Nat arithmetic; correspondence of the hand-written Next/constructor model is validated by sxdiff iter (differential, not proved).",
    },
    "C07": {
        "modules": ["SxVerif.Props.C07"],
        "components": ["pipeline"],
        "extra": [race_pipeline],
        "trusted_base": [
            "modelled, not verified: Go channel / select / sync.WaitGroup / sync.Pool semantics at the granularity of one channel operation or one call per step (Model/Pipe.lean); gopacket SerializeBuffer.Clear never fails; the request channel is modelled unbounded (superset of every capacity incl. rendezvous)",
            "stage descriptors regenerated from generator.go / engine.go / sender.go / memory.go by sxfacts (Generated/StagesPacket.lean): per goroutine the ordered channel operations with their ctx-guards, calls, closes, WaitGroup shape, capacities, wiring facts; the model's configuration (guards, capacities, order of WritePacketData/FreeSerializeBuffer, close order, closers wait) is READ from them and the side conditions are decided on them",
            "the hand-written process bodies of Model/Pipe.lean are tied to the code by the side condition ShapeOk (op sequence of every goroutine) and by sxdiff pipeline: the real pipeline under load (multisets) and steered one-at-a-time traces replayed through the model's step function",
        ],
        "assumptions": ["the error stream has a consumer (startScanEngine drains it)",
                        "the run is not cancelled (cancellation is C12; the no-panic theorem does cover cancel)",
                        "PacketFiller.Fill is a function of the request; a failed WritePacketData is reported once"],
        "level_text": "Lean theorems over the small-step interleaving system Pipe.step (N workers + N multiplexers + closer + sender + 2 error multiplexers + closer + environment, bounded FIFO channels with closed flags, buffer pool with identities, cancel step) instantiated from the regenerated stage descriptors: side_conditions (SingleCloser, CloseAfterSenders, FreeAfterWrite, GetBeforeFill, CapsPositive, GuardedOnReturnPath, ShapeOk, by decide), C07_conserve_partial (token conservation: written + error-consumed + in flight = consumed requests + failed writes + receiver errors, as an invariant of every reachable state of every uncancelled schedule, any N, any request list, any writer failure pattern), C07_final_partial (Terminated => frames written + errors delivered = one frame per error-free request + one error per failed request/build/write/receiver error, as multisets), C07_done_partial (done closed => every error-free request has already been written), C07_no_panic (no send on closed / double close under every schedule incl. cancel), C07_errc_closes_after_cancel. Tied to the code by the real NewPacketMultiGenerator/PacketEngine/NewSender pipeline with a recording writer (frames multiset, errors multiset, done-after-last-write, bytes stable while the writer holds them), worker counts 1..64, >100 errors, slow and failing writers, and steered traces accepted by the model's step function.",
        "level_note": "partial: frames are identified in the theorems by the request a written packet was made for; byte exactness C07_bytes_full (buffer exclusivity invariant BufInv) and C07_progress_full (no deadlock given an error consumer) are stated as defs, not proved; both are covered dynamically by the Spec verdict on every harness case (byte-exact multisets, bytes stable during the write, termination within the timeout). Trusted: Lean kernel; Go runtime semantics as modelled; sxfacts; the race-detector run (thorough) is supporting evidence only.",
    },
    "C20": {
        "modules": ["SxVerif.Props.C20"],
        "components": ["recv"],
        "trusted_base": [
            "modelled, not verified: the Go error values of the vocabulary (syscall.EAGAIN, *net.OpError, io.EOF, …) classify as Model/Recv.lean says (validated by running the real receiver on each value)",
        ],
        "assumptions": ["the error channel has a consumer (errors beyond the 100-slot buffer block on a ctx-guarded send, they are not dropped)",
                        "cancellation is observed at the loop head (a cancellation racing with an error send may or may not deliver that one error: Go select semantics)"],
        "level_text": "Lean theorem C20: for every finite sequence of read outcomes over the modelled error vocabulary and every cancellation point, the receiver model processes exactly the frames before its end, once each and in order, reports exactly the unknown failures and processing errors, retries transient ones silently and ends at the first broken-socket outcome or at cancellation (induction over the sequence, no length bound). The model is tied to receiver.go by running the real ReceivePackets on scripted readers/processors.",
        "level_note": "Trusted: Lean kernel; the vocabulary of 15 error values stands for all errors (an error outside it is classified by the same two Go functions but is not modelled); timing (5 ms sleep) not modelled.",
    },
    "C13": {
        "modules": ["SxVerif.Props.C13"],
        "components": ["gen"],
        "trusted_base": [
            "modelled, not verified: bufio.Scanner line splitting (64 KiB limit) and the easyjson decoder of IPPort as a line classifier (badJson | tooLong | entry(ip?, port)); net.ParseIP as an abstract outcome; cidranger as list membership",
        ],
        "assumptions": ["one error per *reading* of the list: the address x ports mode re-reads the list once per port (see DESIGN.md C13)"],
        "level_text": "Lean theorems C13_pairs/C13_addrs (generator output = per-line expectation of the lines handled, for every list of lines), C13_filter_stage/C13_cache_stage/C13_errors_survive (optional stages are per-request and pass errors through untouched, for every request list), C13_pipeline_* (the composition the commands build). Tied to the code by running the real generators, the real --exclude parser and the real ARP-cache stage on generated target files (gen component), with the Spec reference evaluated on the observed requests.",
        "level_note": "Trusted: Lean kernel; the line classifier abstraction of easyjson/bufio (validated by the harness writing real JSONL text for every class, incl. textual variants); channel plumbing is M-conc's concern (a stage is its list function).",
    },
    "C01": {
        "modules": ["SxVerif.Props.C01"],
        "components": ["gen"],
        "trusted_base": [
            "modelled, not verified: generators as the list they send before closing (channel plumbing is M-conc, C07/C08); cidranger as list membership; net.ParseIP / easyjson / bufio as a line classifier; os.Stdin through the buffering opener as a constant file",
            "chunk loop of startPortScanEngine tied by sxfacts (loop header, body statements and the empty-ranges branch are matched textually; any other shape is a translator problem that breaks Props/C01.translator_clean)",
        ],
        "assumptions": ["'puts on the wire' is closed by C07 (packet commands) and C08 (application commands): this check proves coverage at the request stream",
                        "a regular file yields the same content on every open"],
        "level_text": "Lean theorems C01_port_scan / C01_generic / C01_ip_scan / C01_chunks: for every valid specification (any subnet /0../32, any valid port-range list with any number of chunks, pairs file, address file x ranges incl. stdin), every exclusion list, every ARP cache and every family of random draws, the engine runs of one pass request exactly the denoted (address, port) multiset minus exclusions (List.Perm), built on C04's permutation theorem. chunkSize and the empty-ranges branch are regenerated from root.go each run. The generator models are tied to the code by running the real newIPPortGenerator compositions and whole ScanMethods (down to frames) on generated specifications.",
        "level_note": "Trusted: Lean kernel + Mathlib (via C04); sxfacts for the loop shape; correspondence of hand-written generator models validated by sxdiff gen (differential, multiset level for randomised orders).",
    },
    "C02": {
        "modules": ["SxVerif.Props.C02"],
        "components": ["netparse", "gen"],
        "trusted_base": [
            "modelled, not verified: net.ParseCIDR / netip.ParseAddr for colon-free input (go1.23 parseIPv4Fields, dtoi) as Model/Net.lean; IPv6 parsing is not modelled at all (refused up front by the colon test)",
            "cidranger PCTrie as list membership after To4 normalisation",
        ],
        "assumptions": ["every textual IPv6 form contains ':' (RFC 4291 text representation)"],
        "level_text": "Lean theorems: C02_ipv6_refused (any string with a colon is refused), C02_parse_exact (an accepted target is a 4-byte network equal to what the string denotes by an independent decimal/split reader), round trips for all 2^32 hosts x 33 prefixes, C02_no_panic (the address generator neither fails nor reaches its FillBytes panic on any accepted target), C02_confined_* (every probe of every engine run, for ANY target-file content, goes to a source address that is not excluded, on a requested port) and C02_exclusion_exact (the filter's membership test is exactly block membership). Tied to the code by the real ip.ParseIPNet on grammar-generated strings and the real generators + real --exclude parser + cidranger.",
        "level_note": "Trusted: Lean kernel + Mathlib (via C04); the stdlib model for colon-free strings is validated differentially on every run, not proved.",
    },
    "C06": {
        "modules": ["SxVerif.Props.C06"],
        "components": ["proc"],
        "trusted_base": [
            "modelled, not verified: gopacket layers.{Ethernet,IPv4,TCP,ICMPv4,ARP}.DecodeFromBytes, NextLayerType, LayerPayload and the DecodingLayerParser loop with IgnoreUnsupported and panicToError (Model/Frame.lean), incl. uint8 wrap-around in the ARP decoder and the slice-capacity = length assumption for captured frames",
            "macs.ValidMACPrefixMap (vendor lookup) is opaque",
        ],
        "assumptions": ["a received frame is delivered as a slice whose capacity equals its length (as the harness does; AF_PACKET v3 blocks may be laxer, which can only turn a recovered panic into an error-free decode of bytes of the same ring block)"],
        "level_text": "Lean theorems C06_step / C06_history / C06_terminates: for every byte string, every prior contents of the reused decoder structs and every sequence of frames, the three processors never reach a panic, emit at most one record per frame, and emit it only if the frame itself contains the flat, offset-defined header chain of Spec/Frame.lean (version 4, IHL/lengths consistent, well-delimited options, unfragmented; ARP 1/0x0800/6/4) with every record field read from that frame. Tied to the code by histories of structurally generated and malformed frames through the real ScanMethod.ProcessPacketData.",
        "level_note": "Trusted: Lean kernel; the gopacket decoder model is validated differentially (1.5k histories quick / 25k thorough), not proved.",
    },
    "C18": {
        "modules": ["SxVerif.Props.C18"],
        "components": ["parse"],
        "trusted_base": [
            "modelled, not verified: strconv.ParseUint(.,10,16) / ParseInt(.,10,32), strings.Split/TrimSpace/ToLower, bufio.Scanner line splitting with the 64 KiB limit, strconv.Unquote on the quoted payload (Model/Parse.lean); time.ParseDuration is a parameter `dur` of the rate theorems (the harness passes the real function's answer)",
            "flag tables regenerated from command/config.go and command/tcp.go by sxfacts (Generated/Flags.lean)",
        ],
        "assumptions": ["time.ParseDuration is exact on what it accepts (parameter of the rate theorems)"],
        "level_text": "Lean theorems C18_total_* (no parser reaches a panic on any string), C18_ports_exact / C18_rate_exact / C18_ipflags_exact / C18_tcpflags_exact / C18_ports_file / C18_exclude_file (whatever is accepted is exactly what an independent reader says the string denotes; bounds <= 65535) and the round trips C18_ports_roundtrip / C18_range_roundtrip / C18_rate_roundtrip / C18_payload_roundtrip / C18_payload_plain / C18_*flags_roundtrip (every canonical rendering parses back), for all strings and all values, over flag tables regenerated from the source on every run. Tied to the code by the real parsers on grammar-derived and mutated strings, incl. all 2^9 TCP and 2^3 IP flag subsets through the real filler.",
        "level_note": "Trusted: Lean kernel; the strconv/strings/bufio models are validated differentially on every run, not proved; time.ParseDuration is a parameter.",
    },
}
