"""Per-property configuration of the check runner."""
import json, os, re, subprocess

VERIF = os.path.dirname(os.path.dirname(os.path.abspath(__file__)))

COMMON_TRUSTED = [
    "Lean 4.33.0 kernel (thorough tier re-checks the property module with leanchecker)",
    "axioms: at most propext, Classical.choice, Quot.sound (audited per theorem on every run; no sorry/native_decide/bv_decide/own axioms)",
    "sxfacts (go/ast translator, harness/cmd/sxfacts): reports the AST faithfully; its output is plain data checked by the kernel or cross-checked dynamically by sxdiff",
    "sxdiff (harness/cmd/sxdiff): differential correspondence model vs. real code, generator quality bounds what it sees",
]


def component_timeout(tier):
    return 900 if tier == "quick" else 3600


def known_findings(pid):
    """KNOWN_FINDINGS.txt: `finding: property=C05 id=<id> match=<regex> :: <text>`; `fixed:` lines suppress nothing."""
    out = []
    path = os.path.join(VERIF, "KNOWN_FINDINGS.txt")
    if not os.path.exists(path):
        return out
    for line in open(path):
        line = line.strip()
        m = re.match(r"finding:\s+property=(\S+)\s+id=(\S+)\s+match=(\S+)\s+::\s+(.*)$", line)
        if not m or m.group(1) != pid:
            continue
        rx = re.compile(m.group(3))

        def matcher(rec, rx=rx):
            return bool(rx.search(json.dumps(rec.get("detail", {}), sort_keys=True, default=str)))
        out.append({"id": m.group(2), "matcher": matcher, "text": "id=%s %s" % (m.group(2), m.group(4))})
    return out


def replay(ctx, cfg, path):
    """re-run one recorded case on the real code and on the model"""
    rec = json.load(open(path if os.path.isabs(path) else os.path.join(VERIF, path)))
    print(json.dumps(rec, indent=1)[:4000])
    d = rec.get("detail", {})
    if "case" in d and "component" in d:
        import check
        check.with_lock(lambda: check.build_tools(ctx))
        check.with_lock(lambda: check.lake_build(ctx, ["sxdriver"]))
        cases = os.path.join(ctx.work, "replay.cases")
        line = "\t".join(d["case"])
        p = subprocess.run([os.path.join(check.HARN, "bin", "sxdiff"), "replay", "-cases", cases], input=line + "\n",
                           text=True, capture_output=True, env=check.GOENV)
        print(p.stdout, p.stderr)
        if os.path.exists(cases):
            with open(cases) as fin:
                q = subprocess.run([os.path.join(check.LEAN, ".lake", "build", "bin", "sxdriver")], stdin=fin,
                                   text=True, capture_output=True)
            obs = open(cases).read().rstrip("\n").split("\t")[-1]
            ans = q.stdout.rstrip("\n").split("\t")
            print("observed now :", obs[:2000])
            print("model        :", ans[0][:2000])
            print("spec verdict :", ans[-1])
            if ans[-1] != "1":
                print("VIOLATION property=%s replay=%s" % (ctx.pid, path))
                return 1
            if ans[0] != obs:
                print("VIOLATION property=%s replay=%s no-failing-input-found" % (ctx.pid, path))
                return 1
            return 0
    print("replay record names a broken obligation; re-run ./check %s to re-decide it" % ctx.pid)
    return 0


# ------------------------------------------------------------------ C04 search
def search_c04(ctx, broken):
    """table edit -> look for (n, draws) on which the REAL iterator is not a permutation.
    Runs the correspondence component with the thorough generator; its Spec verdicts are the search."""
    return None  # the generic component run that follows performs the search (Spec on real outputs)


NOT_CLAIMED = {}

PROPS = {
    "C04": {
        "modules": ["SxVerif.Props.C04"],
        "components": ["iter"],
        "search": search_c04,
        "trusted_base": [
            "Mathlib v4.33.0 (ZMod, orderOf, lucas_primality) — checked by the same kernel",
            "modelled, not verified: math/big Exp/Mul/Mod as Nat arithmetic; math/rand as two arbitrary draws; sort.Search as the loop in its source",
        ],
        "assumptions": ["math/big arithmetic is exact", "rand.Int63 returns a value in [0, 2^63)"],
        "level_text": "Lean theorems C04_perm / C04_reject / table_ok over the cyclicGroups table regenerated from range.go on every run: for every n in 1..2^32+60 and every pair of draws the model iterator terminates and emits a permutation of 1..n; other sizes are rejected. Pratt certificates for all 32 rows are re-derived and kernel-checked each run. The algorithm model is tied to the code by differential runs of the real iterator.",
        "level_note": "Trusted: Lean kernel + Mathlib; sxfacts reads the table faithfully; math/big = Nat arithmetic; correspondence of the hand-written Next/constructor model is validated by sxdiff iter (differential, not proved).",
    },
    "C20": {
        "modules": ["SxVerif.Props.C20"],
        "components": ["recv"],
        "trusted_base": [
            "modelled, not verified: the Go error values of the vocabulary (syscall.EAGAIN, *net.OpError, io.EOF, …) classify as Model/Recv.lean says (validated by running the real receiver on each value)",
        ],
        "assumptions": ["the error channel has a consumer (errors beyond the 100-slot buffer block on a ctx-guarded send, they are not dropped)",
                        "cancellation is observed at the loop head (a cancellation racing with an error send may or may not deliver that one error: Go select semantics)"],
        "level_text": "Lean theorem C20: for every finite sequence of read outcomes over the modelled error vocabulary and every cancellation point, the receiver model processes exactly the frames before its end, once each and in order, reports exactly the unknown failures and processing errors, retries transient ones silently and ends at the first broken-socket outcome or at cancellation (induction over the sequence, no length bound). The model is tied to receiver.go by running the real ReceivePackets on scripted readers/processors.",
        "level_note": "Trusted: Lean kernel; the vocabulary of 15 error values stands for all errors (an error outside it is classified by the same two Go functions but is not modelled); timing (5 ms sleep) not modelled.",
    },
    "C13": {
        "modules": ["SxVerif.Props.C13"],
        "components": ["gen"],
        "trusted_base": [
            "modelled, not verified: bufio.Scanner line splitting (64 KiB limit) and the easyjson decoder of IPPort as a line classifier (badJson | tooLong | entry(ip?, port)); net.ParseIP as an abstract outcome; cidranger as list membership",
        ],
        "assumptions": ["one error per *reading* of the list: the address x ports mode re-reads the list once per port (see DESIGN.md C13)"],
        "level_text": "Lean theorems C13_pairs/C13_addrs (generator output = per-line expectation of the lines handled, for every list of lines), C13_filter_stage/C13_cache_stage/C13_errors_survive (optional stages are per-request and pass errors through untouched, for every request list), C13_pipeline_* (the composition the commands build). Tied to the code by running the real generators, the real --exclude parser and the real ARP-cache stage on generated target files (gen component), with the Spec reference evaluated on the observed requests.",
        "level_note": "Trusted: Lean kernel; the line classifier abstraction of easyjson/bufio (validated by the harness writing real JSONL text for every class, incl. textual variants); channel plumbing is M-conc's concern (a stage is its list function).",
    },
    "C01": {
        "modules": ["SxVerif.Props.C01"],
        "components": ["gen"],
        "trusted_base": [
            "modelled, not verified: generators as the list they send before closing (channel plumbing is M-conc, C07/C08); cidranger as list membership; net.ParseIP / easyjson / bufio as a line classifier; os.Stdin through the buffering opener as a constant file",
            "chunk loop of startPortScanEngine tied by sxfacts (loop header, body statements and the empty-ranges branch are matched textually; any other shape is a translator problem that breaks Props/C01.translator_clean)",
        ],
        "assumptions": ["'puts on the wire' is closed by C07 (packet commands) and C08 (application commands): this check proves coverage at the request stream",
                        "a regular file yields the same content on every open"],
        "level_text": "Lean theorems C01_port_scan / C01_generic / C01_ip_scan / C01_chunks: for every valid specification (any subnet /0../32, any valid port-range list with any number of chunks, pairs file, address file x ranges incl. stdin), every exclusion list, every ARP cache and every family of random draws, the engine runs of one pass request exactly the denoted (address, port) multiset minus exclusions (List.Perm), built on C04's permutation theorem. chunkSize and the empty-ranges branch are regenerated from root.go each run. The generator models are tied to the code by running the real newIPPortGenerator compositions and whole ScanMethods (down to frames) on generated specifications.",
        "level_note": "Trusted: Lean kernel + Mathlib (via C04); sxfacts for the loop shape; correspondence of hand-written generator models validated by sxdiff gen (differential, multiset level for randomised orders).",
    },
    "C02": {
        "modules": ["SxVerif.Props.C02"],
        "components": ["netparse", "gen"],
        "trusted_base": [
            "modelled, not verified: net.ParseCIDR / netip.ParseAddr for colon-free input (go1.23 parseIPv4Fields, dtoi) as Model/Net.lean; IPv6 parsing is not modelled at all (refused up front by the colon test)",
            "cidranger PCTrie as list membership after To4 normalisation",
        ],
        "assumptions": ["every textual IPv6 form contains ':' (RFC 4291 text representation)"],
        "level_text": "Lean theorems: C02_ipv6_refused (any string with a colon is refused), C02_parse_exact (an accepted target is a 4-byte network equal to what the string denotes by an independent decimal/split reader), round trips for all 2^32 hosts x 33 prefixes, C02_no_panic (the address generator neither fails nor reaches its FillBytes panic on any accepted target), C02_confined_* (every probe of every engine run, for ANY target-file content, goes to a source address that is not excluded, on a requested port) and C02_exclusion_exact (the filter's membership test is exactly block membership). Tied to the code by the real ip.ParseIPNet on grammar-generated strings and the real generators + real --exclude parser + cidranger.",
        "level_note": "Trusted: Lean kernel + Mathlib (via C04); the stdlib model for colon-free strings is validated differentially on every run, not proved.",
    },
    "C06": {
        "modules": ["SxVerif.Props.C06"],
        "components": ["proc"],
        "trusted_base": [
            "modelled, not verified: gopacket layers.{Ethernet,IPv4,TCP,ICMPv4,ARP}.DecodeFromBytes, NextLayerType, LayerPayload and the DecodingLayerParser loop with IgnoreUnsupported and panicToError (Model/Frame.lean), incl. uint8 wrap-around in the ARP decoder and the slice-capacity = length assumption for captured frames",
            "macs.ValidMACPrefixMap (vendor lookup) is opaque",
        ],
        "assumptions": ["a received frame is delivered as a slice whose capacity equals its length (as the harness does; AF_PACKET v3 blocks may be laxer, which can only turn a recovered panic into an error-free decode of bytes of the same ring block)"],
        "level_text": "Lean theorems C06_step / C06_history / C06_terminates: for every byte string, every prior contents of the reused decoder structs and every sequence of frames, the three processors never reach a panic, emit at most one record per frame, and emit it only if the frame itself contains the flat, offset-defined header chain of Spec/Frame.lean (version 4, IHL/lengths consistent, well-delimited options, unfragmented; ARP 1/0x0800/6/4) with every record field read from that frame. Tied to the code by histories of structurally generated and malformed frames through the real ScanMethod.ProcessPacketData.",
        "level_note": "Trusted: Lean kernel; the gopacket decoder model is validated differentially (1.5k histories quick / 25k thorough), not proved.",
    },
    "C11": {
        "modules": ["SxVerif.Props.C11"],
        "components": ["arpcache"],
        "trusted_base": [
            "modelled, not verified: net.IP.String / HardwareAddr.String for 4/6-byte values, net.ParseIP for colon-free text and the ::ffff:a.b.c.d spelling (go1.23 parseIPv4Fields), net.ParseMAC (all three textual forms), bufio.Scanner line splitting (lines below 64 KiB), easyjson's jlexer for arp.ScanResult as the RFC 8259 reader of Spec/Json plus the decoder loop (string-typed ip/mac/vendor, null skipped, unknown keys skipped, repeated key overwrites) — Model/ArpCache.lean; validated on every run through the real ARP processor, encoder, FillCache and cache request generator",
            "other IPv6 text in a cache file and 8/20-byte MACs are outside the model (never printed by the ARP scan); jlexer's leniency on malformed JSON (e.g. trailing commas) is not modelled: the harness's malformed lines are non-objects and truncated objects",
            "cache writers regenerated from the tree by sxfacts (Generated/ArpCacheFacts.lean); cacheReqGenerator model shared with C13 (Model/Gen.lean)",
        ],
        "assumptions": ["sync.RWMutex meets its contract (concurrent Gets of an unchanging map return the stored value)",
                        "the vendor table lookup returns some string (any bytes allowed)"],
        "level_text": "Lean theorems C11_ip_roundtrip / C11_mac_roundtrip (dotted-quad and MAC rendering parse back for all 2^32 / 2^48 values, by structure of the digit rendering), C11_line_loads (the line printed for any ARP reply, with any vendor string, is accepted by the loader and yields exactly {printed address -> printed MAC}; built on C14's ARP-line theorem), C11_load_in_order / C11_last_wins (either spelling), C11_unknown_fields_skipped, C11_stage_choice / C11_never_foreign_mac (own entry, else gateway, else error; error requests untouched) and C11_cache_immutable_during_scan over writer facts regenerated from the tree. Tied to the code by ARP replies through the real processor -> real MarshalJSON -> real FillCache -> real NewCacheRequestGenerator, and by random cache files with duplicates, ::ffff: spellings, extra/null/repeated fields and malformed addresses.",
        "level_note": "Trusted: Lean kernel; the stdlib parser/printer models and the jlexer abstraction are validated differentially, not proved; concurrency is reduced to immutability of the cache after option parsing (generated fact) plus the RWMutex contract; -race run not included.",
    },
    "C14": {
        "modules": ["SxVerif.Props.C14"],
        "components": ["json"],
        "trusted_base": [
            "modelled, not verified: easyjson v0.7.7 jwriter.Writer.String / Uint8 / Uint16 and go1.23 encoding/json appendString (escapeHTML on), strconv.AppendInt/AppendUint, utf8.DecodeRuneInString (Model/Json.lean; validated byte-for-byte on every run, incl. all 256 single bytes through both escapers)",
            "encoding/json's reflection walk (struct tags, omitempty, nil map/slice/pointer = null, Marshaler types such as time.Time, []byte = base64, float64 formatting) is NOT modelled: the harness computes the value tree it walks (goVal in harness/cmd/sxdiff/json.go, floatEncoder copied verbatim) and the model renders that tree (sorting Go maps); the theorems cover every well-formed tree",
            "JSONResultWriter.Write / LogResults call structure regenerated from command/log by sxfacts (Generated/JsonWriter.lean)",
        ],
        "assumptions": ["fmt.Fprintf performs a single Write on its writer per call (fmt's documented buffering: the formatted text is handed to w.Write once)",
                        "strings inside server-supplied values (elastic maps, docker Info/Version) are valid UTF-8: they are produced by encoding/json's decoder, which replaces invalid bytes by U+FFFD (the harness feeds invalid bytes through the real decoder)",
                        "float64 literals written by encoding/json obey RFC 8259's number grammar (checked on every generated value: resultWf is part of the verdict)",
                        "MarshalJSON does not fail (no NaN/Inf or cyclic values: unreachable from a JSON decoder); the channel is read by one logger goroutine"],
        "level_text": "Lean theorems C14_string_easyjson / C14_string_encodingjson (the independent JSON reader undoes both string escapers on every byte string), C14_integer, C14_value (every value tree of any depth), C14_arp/_tcp/_icmp/_socks/_elastic/_docker (the line of each result type reads back as exactly the documented keys and field values, for all field strings and all trees), C14_any_bytes_partial (invalid UTF-8: still one complete object, value read back sanitised), C14_single_line, C14_writes_in_order / C14_output_lines (output = the lines in channel order, one write each), C14_uniq_* (de-duplication = first occurrences by ID: every ID once, at its first sighting, order kept) and C14_one_write_per_result over facts regenerated from command/log. Tied to the code by random hostile results of all 7 kinds through the real MarshalJSON and the real Logger/UniqueLogger (byte-for-byte and write-for-write), with the Spec reader evaluated on the real bytes.",
        "level_note": "Trusted: Lean kernel; the escaper / strconv models and the harness-side reflection walk are validated differentially on every run, not proved; invalid UTF-8 in flat fields is covered by the weaker _partial statement (sanitised value).",
    },
    "C18": {
        "modules": ["SxVerif.Props.C18"],
        "components": ["parse"],
        "trusted_base": [
            "modelled, not verified: strconv.ParseUint(.,10,16) / ParseInt(.,10,32), strings.Split/TrimSpace/ToLower, bufio.Scanner line splitting with the 64 KiB limit, strconv.Unquote on the quoted payload (Model/Parse.lean); time.ParseDuration is a parameter `dur` of the rate theorems (the harness passes the real function's answer)",
            "flag tables regenerated from command/config.go and command/tcp.go by sxfacts (Generated/Flags.lean)",
        ],
        "assumptions": ["time.ParseDuration is exact on what it accepts (parameter of the rate theorems)"],
        "level_text": "Lean theorems C18_total_* (no parser reaches a panic on any string), C18_ports_exact / C18_rate_exact / C18_ipflags_exact / C18_tcpflags_exact / C18_ports_file / C18_exclude_file (whatever is accepted is exactly what an independent reader says the string denotes; bounds <= 65535) and the round trips C18_ports_roundtrip / C18_range_roundtrip / C18_rate_roundtrip / C18_payload_roundtrip / C18_payload_plain / C18_*flags_roundtrip (every canonical rendering parses back), for all strings and all values, over flag tables regenerated from the source on every run. Tied to the code by the real parsers on grammar-derived and mutated strings, incl. all 2^9 TCP and 2^3 IP flag subsets through the real filler.",
        "level_note": "Trusted: Lean kernel; the strconv/strings/bufio models are validated differentially on every run, not proved; time.ParseDuration is a parameter.",
    },
}
