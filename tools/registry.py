"""Per-property configuration of the check runner."""
import json, os, re, subprocess

VERIF = os.path.dirname(os.path.dirname(os.path.abspath(__file__)))

COMMON_TRUSTED = [
    "Lean 4.33.0 kernel (thorough tier re-checks the property module with leanchecker)",
    "axioms: at most propext, Classical.choice, Quot.sound (audited per theorem on every run; no sorry/native_decide/bv_decide/own axioms)",
    "sxfacts (go/ast translator, harness/cmd/sxfacts): reports the AST faithfully; its output is plain data checked by the kernel or cross-checked dynamically by sxdiff",
    "sxdiff (harness/cmd/sxdiff): differential correspondence model vs. real code, generator quality bounds what it sees",
]


def component_timeout(tier):
    return 900 if tier == "quick" else 3600


def known_findings(pid):
    """KNOWN_FINDINGS.txt: `finding: property=C05 id=<id> match=<regex> :: <text>`; `fixed:` lines suppress nothing."""
    out = []
    path = os.path.join(VERIF, "KNOWN_FINDINGS.txt")
    if not os.path.exists(path):
        return out
    for line in open(path):
        line = line.strip()
        m = re.match(r"finding:\s+property=(\S+)\s+id=(\S+)\s+match=(\S+)\s+::\s+(.*)$", line)
        if not m or m.group(1) != pid:
            continue
        rx = re.compile(m.group(3))

        def matcher(rec, rx=rx):
            return bool(rx.search(json.dumps(rec.get("detail", {}), sort_keys=True, default=str)))
        out.append({"id": m.group(2), "matcher": matcher, "text": "id=%s %s" % (m.group(2), m.group(4))})
    return out


# components that are run a second time with the Go race detector compiled in (in-process, concurrent, cheap)
RACE_COMPONENTS = {"gen", "arpcache", "proc", "pipeline", "live", "engine", "cancel", "recv", "exitdelay", "limiter",
                   "socks", "json"}


def replay(ctx, cfg, path):
    """re-run one recorded case on the real code and on the model"""
    rec = json.load(open(path if os.path.isabs(path) else os.path.join(VERIF, path)))
    print(json.dumps(rec, indent=1)[:4000])
    d = rec.get("detail", {})
    if d.get("race"):
        import check
        check.with_lock(lambda: check.build_tools(ctx))
        n0 = len(ctx.violations)
        check.race_pass(ctx, d["component"])
        if len(ctx.violations) > n0:
            print("VIOLATION property=%s replay=%s" % (ctx.pid, path))
            return 1
        print("no race reported this time (the detector samples schedules; the recorded report stands as the witness)")
        return 0
    if "case" in d and "component" in d:
        import check
        check.with_lock(lambda: check.build_tools(ctx))
        check.with_lock(lambda: check.lake_build(ctx, ["sxdriver"]))
        cases = os.path.join(ctx.work, "replay.cases")
        line = "\t".join(d["case"])
        p = subprocess.run([os.path.join(check.HARN, "bin", "sxdiff"), "replay", "-cases", cases], input=line + "\n",
                           text=True, capture_output=True, env=check.GOENV)
        print(p.stdout, p.stderr)
        if os.path.exists(cases):
            with open(cases) as fin:
                q = subprocess.run([os.path.join(check.LEAN, ".lake", "build", "bin", "sxdriver")], stdin=fin,
                                   text=True, capture_output=True)
            obs = open(cases).read().rstrip("\n").split("\t")[-1]
            ans = q.stdout.rstrip("\n").split("\t")
            print("observed now :", obs[:2000])
            print("model        :", ans[0][:2000])
            print("spec verdict :", ans[-1])
            if ans[-1] != "1":
                print("VIOLATION property=%s replay=%s" % (ctx.pid, path))
                return 1
            if ans[0] != obs:
                print("VIOLATION property=%s replay=%s no-failing-input-found" % (ctx.pid, path))
                return 1
            return 0
    print("replay record names a broken obligation; re-run ./check %s to re-decide it" % ctx.pid)
    return 0


# ------------------------------------------------------------------ C04 search
def search_c04(ctx, broken):
    """table / algorithm edit -> look for (n, draws) on which the REAL iterator is not a permutation:
    re-run the iter component in search mode (VERIF_SEARCH=1: complete iterations of every table row up to
    2^28, counted with a bitmap); its Spec verdicts are the search."""
    import check
    check.run_component(ctx, "iter")


def search_c01(ctx, broken):
    """a C01 obligation is broken: first the end-to-end component in search mode (more reply-flood runs across
    chunk boundaries), and only if that finds nothing the (slow) iterator search of C04"""
    import check
    check.run_component(ctx, "e2e")
    if not any(f for _, f, _ in ctx.violations):
        check.run_component(ctx, "iter")


def deep_iterstep(ctx, cf):
    """an `iterstep` case on which Next differs from the model: run one COMPLETE turn of the real iterator
    from that state (startI = I, limit = min(P-1, 2^32)) and count; a count != limit or a repeated value is
    a concrete failing input for C04 (range size = limit, the draw that yields this G', that start)."""
    import check
    p, g, i = int(cf[1]), int(cf[2]), int(cf[3])
    limit = min(p - 1, 1 << 32)
    line = "\t".join(["iterfull", str(p), str(g), str(i), str(limit)])
    cases = os.path.join(ctx.work, "deep.cases")
    try:
        q = subprocess.run([os.path.join(check.HARN, "bin", "sxdiff"), "replay", "-cases", cases], input=line + "\n",
                           text=True, capture_output=True, env=dict(check.GOENV, GOMEMLIMIT="8GiB"), timeout=900)
    except subprocess.TimeoutExpired:
        ctx.notes.append("deep search from %s timed out" % line)
        return None
    if q.returncode != 0 or not os.path.exists(cases):
        return None
    obs = open(cases).read().rstrip("\n").split("\t")[-1]
    if obs != "%d 1" % limit:
        return {"failing_input": {"range_size_n": limit, "P": p, "randomised_generator": g, "start_element": i},
                "expected": "%d values, all distinct, in 1..n" % limit, "observed": "count ok = " + obs,
                "replay_line": line}
    return None


DEEP_SEARCH = {"iterstep": deep_iterstep}

# ------------------------------------------------------------------ C07: race-detector run (thorough tier)
def race_pipeline(ctx):
    """thorough tier: the pipeline component once more, built with -race (supporting evidence only)"""
    if ctx.tier != "thorough":
        return
    import check
    exe = os.path.join(check.HARN, "bin", "sxdiff-race")
    rc, out, _ = check.sh(["go", "build", "-race", "-tags", "verif", "-o", exe, "./cmd/sxdiff"], cwd=check.HARN, env=check.GOENV)
    if rc != 0:
        ctx.notes.append("race build not available: " + out[-300:])
        return
    rc, out, dt = check.sh([exe, "pipeline", "-seed", str(ctx.seed), "-tier", "quick", "-cases", os.path.join(ctx.work, "race.cases"),
                            "-stats", os.path.join(ctx.work, "race.stats.json")], cwd=ctx.work,
                           env=dict(check.GOENV, GORACE="halt_on_error=0"), timeout=1200)
    ctx.notes.append("race-detector run of sxdiff pipeline: rc=%d, %.1fs, DATA RACE reports: %d" % (rc, dt, out.count("DATA RACE")))
    if "DATA RACE" in out or rc != 0:
        ctx.violation("correspondence", "race detector reports a data race (or the race build crashed) in the packet pipeline run",
                      {"component": "pipeline-race", "output": out[-3000:]}, False)


NOT_CLAIMED = {}

PROPS = {
    "C04": {
        "modules": ["SxVerif.Props.C04"],
        "components": ["iter", "iterpass"],
        "search": search_c04,
        "trusted_base": [
            "Mathlib v4.33.0 (ZMod, orderOf, lucas_primality) — checked by the same kernel",
            "modelled, not verified: math/big Exp/Mul/Mod as Nat arithmetic; math/rand as two arbitrary draws; sort.Search as the loop in its source",
        ],
        "assumptions": ["math/big arithmetic is exact", "rand.Int63 returns a value in [0, 2^63)"],
        "level_text": "Lean theorems C04_perm / C04_reject / table_ok over the cyclicGroups table regenerated from range.go on every run: for every n in 1..2^32+60 and every pair of draws the model iterator terminates and emits a permutation of 1..n; other sizes are rejected. Pratt certificates for all 32 rows are re-derived and kernel-checked each run. The algorithm model is tied to the code by differential runs of the real iterator.",
        "level_note": "Trusted: Lean kernel + Mathlib; sxfacts reads the table faithfully; math/big = Nat arithmetic; correspondence of the hand-written Next/constructor model is validated by sxdiff iter (differential, not proved).",
    },
    "C08": {
        "modules": ["SxVerif.Props.C08"],
        "components": ["engine", "e2eapp", "json"],
        "trusted_base": [
            "modelled, not verified: Go channel / select / WaitGroup / context semantics as the transition system Model/Engine.lean (bounded FIFO with closed flag, send-on-closed and double close = panic, a select may take any ready case, parent cancel propagates to the derived ctx atomically); one step = one channel operation, call or timer event of one goroutine",
            "the generator and the `requests` channel are abstracted to the list of requests still to be delivered (its own plumbing is C01/C13); `Scan` is an oracle with arbitrary latency (any interleaving); the rate limiter only delays `Scan` (rateLimitScanner.Scan = Take; delegate — tied by sxfacts); the flush timer branch of LogResults and zap's error sink are not modelled",
            "stage descriptors regenerated by sxfacts/stages_engine.go from engine.go, result.go, logger.go, root.go, config.go and the command files (channel roles by declaration, guards by the enclosing select, which ctx by the call chain); Props/C08.stages_as_modelled decides that they are what the transition system encodes",
            "Start's early-return branch (GenerateRequests fails: one buffered error, both channels closed, no goroutine) is not part of the transition system; it is covered by the descriptor `startEarly` and by harness cases `generr`",
        ],
        "assumptions": ["workers >= 1 (parseRawOptions refuses workers <= 0: generated fact workersValidated)",
                        "no Ctrl-C during the run (cmdCtx = false); cancellation is C12",
                        "C08_drain_partial: DrainedAtCancel — copier and logger empty the result path (<= 6*1000+4 of their own steps, C08_drain_steps) within the exit delay; wall-clock, measured by the harness at the default 300 ms with > 2000 queued records"],
        "level_text": "Lean theorems over the interleaving semantics Model/Engine.lean (GenericEngine.Start + W workers + errc cap 100 + resultChan internalResults -> copier -> results + LogResults + startScanEngine controller/drain/main with a logical clock), by induction over Reachable, for every W >= 1, every request list, every Scan oracle and every schedule: C08_handoff (receive events = prefix of the stream), C08_scan_once / C08_put_once / C08_err_once (multiset conservation incl. what workers hold), C08_done_after_all (done closed => all W workers returned, stream exhausted, nothing in progress, errc closed first), C08_complete (probes ~ ok targets, Puts ~ detections, error sends ~ error entries + failures), C08_fifo (printed ++ in-flight = Puts, also after the controller's cancel), C08_err_fifo (logged ++ in-flight = sent on every path; all logged once the drain returned), C08_no_panic, C08_drain_partial + C08_drain_steps (everything printed if the result path was empty at cancel; that needs at most 6004 copier/logger steps, each enabled). The instance is tied to the source by generated stage descriptors (stages_as_modelled, decided) and by running the REAL NewScanEngine/GenericEngine/resultChan/LogResults/startScanEngine with a recording scanner (W in {1,2,7,100,1000}, > 2000 results, > 100 errors, random latencies, limiter on/off, real generator chain).",
        "level_note": "Partial: 'everything detected is printed before exit' is proved under the named hypothesis DrainedAtCancel (C08_full is stated, not claimed). Trusted: Lean kernel; the channel/select/context semantics of the transition system (validated differentially: final multisets, FIFO order via a Put-order recorder, done-after-probes, concurrency <= W, exit not before done + delay); sxfacts for the descriptors.",
    },
    "C16": {
        "modules": ["SxVerif.Props.C16"],
        "components": ["exitdelay", "e2edelay", "recv", "pipeline", "e2eapp"],
        "trusted_base": [
            "modelled, not verified: time as a logical clock (`tick`), `time.After(d)` as a timer whose receive is enabled once clock >= creation time + d; Go channel / select / context semantics as in Model/Engine.lean (see C08)",
            "the packet receiver is abstracted to an external producer that reads the next arrived frame only while the derived ctx is live and then calls Put (receiver loop polls ctx at the loop head; C03/C06/C20 own the frame side)",
            "exit-delay wiring and controller shape regenerated by sxfacts/stages_engine.go (flag default, withExitDelay in all 11 commands, newEngineConfig default, statement order of the controller goroutine)",
        ],
        "assumptions": ["timers do not fire early (Go runtime)",
                        "that the enqueued late record is also PRINTED needs the drain hypothesis of C08 (DrainedAtCancel); C16_full is stated, not claimed",
                        "bounded return: weak fairness of the scheduler / select and Scan, Write returning (C12)"],
        "level_text": "Lean theorems over Model/Engine.lean with a logical clock and an external producer, by induction over Reachable, for every request list, every arrival script, every W and schedule: C16_delay_respected (controller cancel at tc => done closed at td with td + delay <= tc), C16_cancel_provenance (the derived ctx is cancelled only by the controller or by Ctrl-C), C16_late_reply_accepted / C16_late_reply_enqueued (before the cancel a frame that arrived can be read and Put; without Ctrl-C every frame read is enqueued, the result path stays FIFO and lossless across the cancel), C16_controller_drops_nothing, C16_returns_bounded (progress + ranking function with a closed bound), C16_records_complete; exit_delay_wired decides the regenerated wiring facts (default 300 ms, all 11 commands, controller order done -> timer(exitDelay) -> cancel). Tied to the code by running the REAL startScanEngine + resultChan + LogResults with a fake engine (done at 0, replies at scripted times incl. 0.5*delay, optional Ctrl-C) and measuring cancel and return times.",
        "level_note": "Partial: printing of the late record needs C08's drain hypothesis; termination needs fairness (bounded steps proved, not bounded time). Trusted: Lean kernel; logical-clock abstraction of timers; sxfacts for wiring; timing measured with generous slack (3 s) by the harness.",
    },
    "C12": {
        "modules": ["SxVerif.Props.C12"],
        "components": ["cancel", "pipeline", "e2esigint"],
        "trusted_base": [
            "modelled, not verified: Go channel / select / WaitGroup / context semantics as Model/Engine.lean (see C08); Ctrl-C = step `cancelCmd`, enabled in every state, cancelling command ctx and derived ctx together; SIGINT delivery itself is runtime",
            "packet side: the theorems C12_packet_no_panic / C12_packet_errc_closes are the C07 lemmas over Pipe.step (Proofs/ConcPacket*.lean); the pipeline component's cancel mode ties them to the code",
            "side conditions SingleCloser / CloseAfterSenders / GuardedOnReturnPath decided on descriptors regenerated by sxfacts/stages_engine.go",
        ],
        "assumptions": ["weak fairness: an enabled step of a return-path process is eventually taken (Go scheduler; select picks any ready case, so a worker may take further requests after the cancellation: the 5*|pending| term of the bound)",
                        "Scan, Write and limiter.Take() return (bounded by C09/C10 timeouts; with --rate a worker may sit in Take(), which is not ctx-aware, for up to W*window/N)",
                        "the harness's Scanner ignores ctx (worst case for the return time)"],
        "level_text": "Lean theorems over Model/Engine.lean with Ctrl-C enabled in every state, by induction over Reachable, for every W, request list, producer script and schedule, i.e. every cancellation point: C12_no_panic (no send on a closed channel, no double close; errc closed => all W workers returned; results closed <=> copier returned), C12_progress (derived ctx cancelled and not returned => some return-path process can step), C12_rank_step + C12_bounded_return (ranking function: every return-path step strictly decreases it, no other step increases it after the cancel; along every execution at most rank steps), C12_rank_bound (rank <= 4*capRes + 2*capErr + 7*W + 5*|pending| + 12 = 4912 + 5*|pending| at the source's constants), C12_streams_end (returned => logger and drain returned, errc closed and empty, every sent error logged once), C12_whole_records (output grows only by one whole record per Write; only Put values are printed). Side conditions decided on regenerated descriptors. Tied to the code by cancelling the REAL engine + startScanEngine at the k-th Scan / Put / error / write for every k of short runs and with full buffers, in a child process (panic => recorded with goroutine dump), checking return time, complete lines, at-most-once counts. Packet side: the REAL NewPacketMultiGenerator/NewSender/PacketEngine pipeline cancelled at the k-th consumed request / started write / consumed error for every k of short runs (plain, slow writer, writer blocked until the error stream ended, error consumer starting at the cancel) and with every error channel full (> 300 errors, stalled consumer), in a child process: no panic, merged error channel closed within 2 s of the cancel, frames and errors at most once and byte-exact, and the observed event trace with the cancel event accepted by Pipe.step (search over the internal steps).",
        "level_note": "Partial: bounded STEPS, not bounded time. C12_full (the formerly open statement: from every reachable state with the derived ctx cancelled a returning continuation exists with at most rank return-path steps) is now a theorem (C12_return_exists: made of return-path steps only), and C12_quiescent_returned says a cancelled run in which no return-path step is enabled HAS returned, so only starvation of an enabled step (weak fairness of the Go scheduler) can keep it from returning; that every fair infinite schedule ends is not stated in Lean (schedules are finite lists). After a cancel the packet sender may stay blocked on its unguarded `errc <- err` when errc is full (done is then never closed; startScanEngine does not wait for it): modelled (gSenderErr = false), observed (d=0 in fullerr cases), not a violation of the property. Trusted: Lean kernel; channel/select semantics of the transition system; sxfacts for descriptors.",
    },
    "C07": {
        "modules": ["SxVerif.Props.C07"],
        "components": ["pipeline", "gen", "e2eslow", "e2eerr", "e2eapp"],
        "extra": [race_pipeline],
        "trusted_base": [
            "modelled, not verified: Go channel / select / sync.WaitGroup / sync.Pool semantics at the granularity of one channel operation or one call per step (Model/Pipe.lean); gopacket SerializeBuffer.Clear never fails; the request channel is modelled unbounded (superset of every capacity incl. rendezvous)",
            "stage descriptors regenerated from generator.go / engine.go / sender.go / memory.go by sxfacts (Generated/StagesPacket.lean): per goroutine the ordered channel operations with their ctx-guards, calls, closes, WaitGroup shape, capacities, wiring facts; the model's configuration (guards, capacities, order of WritePacketData/FreeSerializeBuffer, close order, closers wait) is READ from them and the side conditions are decided on them",
            "the hand-written process bodies of Model/Pipe.lean are tied to the code by the side condition ShapeOk (op sequence of every goroutine) and by sxdiff pipeline: the real pipeline under load (multisets) and steered one-at-a-time traces replayed through the model's step function",
        ],
        "assumptions": ["the error stream has a consumer (startScanEngine drains it)",
                        "the run is not cancelled (cancellation is C12; the no-panic theorem does cover cancel)",
                        "PacketFiller.Fill is a function of the request; a failed WritePacketData is reported once",
                        "at least one generator worker (NewPacketMultiGenerator is called with runtime.NumCPU() >= 1)"],
        "level_text": "Lean theorems over the small-step interleaving system Pipe.step (N workers + N multiplexers + closer + sender + 2 error multiplexers + closer + environment incl. the error consumer, bounded FIFO channels with closed flags, buffer pool with identities and memory, cancel step) instantiated from the regenerated stage descriptors: side_conditions (SingleCloser, CloseAfterSenders, FreeAfterWrite, GetBeforeFill, CapsPositive, GuardedOnReturnPath, ShapeOk, by decide), C07_conserve (token conservation: written + error-consumed + in flight = consumed requests + failed writes + receiver errors, as an invariant of every reachable state of every uncancelled schedule, any N, any request list, any writer failure pattern), C07_buffer_exclusive (BufInv in every reachable state incl. cancel: buffer identities in in-flight packets / worker locals / sender local / pool pairwise distinct, memory of an in-flight buffer = the bytes built for its request), C07_bytes_full (the k-th byte string handed to WritePacketData = the frame built for the request of the k-th written packet), C07_final_full (Terminated => byte strings written = frames of the error-free requests and errors delivered = one per failed request/build/write/receiver error, as multisets), C07_done_full (done closed => all frames already written, byte level, and no write after done), C07_no_write_after_done (also when cancelled), C07_progress_full (no deadlock of an uncancelled run: Terminated or some non-cancel step enabled, the error consumer being the system step `consume`), C07_no_panic (no send on closed / double close under every schedule incl. cancel), C07_errc_closes_after_cancel. Necessity of FreeAfterWrite: free_before_write_breaks_bytes (swapped sender calls reach a state where the writer saw another request's bytes). Tied to the code by the real NewPacketMultiGenerator/PacketEngine/NewSender pipeline with a recording writer (frames multiset, errors multiset, done-after-last-write, bytes stable while the writer holds them), worker counts 1..64, >100 errors, slow and failing writers, steered traces accepted by the model's step function, and cancellation at every observable event (packet side of C12).",
        "level_note": "Trusted: Lean kernel; Go runtime semantics as modelled (one channel operation / call per step, sync.Pool as a set of identities that may drop any pooled buffer); sxfacts; the race-detector run (thorough) is supporting evidence only. The final/done theorems need N >= 1 workers (sx passes runtime.NumCPU()).",
    },
    "C20": {
        "modules": ["SxVerif.Props.C20"],
        "components": ["recv"],
        "trusted_base": [
            "modelled, not verified: the Go error values of the vocabulary (syscall.EAGAIN, *net.OpError, io.EOF, …) classify as Model/Recv.lean says (validated by running the real receiver on each value)",
        ],
        "assumptions": ["the error channel has a consumer (errors beyond the 100-slot buffer block on a ctx-guarded send, they are not dropped)",
                        "cancellation is observed at the loop head (a cancellation racing with an error send may or may not deliver that one error: Go select semantics)"],
        "level_text": "Lean theorem C20: for every finite sequence of read outcomes over the modelled error vocabulary and every cancellation point, the receiver model processes exactly the frames before its end, once each and in order, reports exactly the unknown failures and processing errors, retries transient ones silently and ends at the first broken-socket outcome or at cancellation (induction over the sequence, no length bound). The model is tied to receiver.go by running the real ReceivePackets on scripted readers/processors.",
        "level_note": "Trusted: Lean kernel; the vocabulary of 16 error values stands for all errors (an error outside it is classified by the same two Go functions but is not modelled); timing (5 ms sleep) not modelled.",
    },
    "C19": {
        "modules": ["SxVerif.Props.C19"],
        "components": ["live", "pipeline", "gen", "e2elive"],
        "trusted_base": [
            "modelled, not verified: Go channel/select/timer semantics as the small-step process of Model/Live.lean (a goroutine parked in a select is woken by the first case that fires; both-ready selects choose arbitrarily; receive on a nil channel blocks; time.After(0) is ready at once); arming the rescan timer and polling the select is one atomic step",
            "the delegate as `passes : Nat -> Option (List Request)` plus `drop` events after a cancel (its own ctx-guarded sends); the consumer of `out` as the scheduler (a slow consumer = the goroutine is not scheduled)",
            "shape of liveRequestGenerator / readRequest / writeRequest and the arp --live wiring regenerated by sxfacts (Generated/Live.lean; local identifiers normalised by role; unknown shapes are translator problems that break Props/C19.translator_clean)",
        ],
        "assumptions": [
            "rescan > 0 for the bounded-termination theorem (the arp wiring installs the live generator only when --live > 0: C19_wiring); with rescan = 0 a cancelled generator may keep racing its always-ready timer",
            "liveness (C19_passes_unbounded) is under fairness: the goroutine is scheduled again and again (which includes the consumer taking requests) and time keeps flowing",
            "a delegate that fails returns the nil channel (all generators of sx do: `return nil, err`)",
            "the harness observes lower bounds on real time only (gap >= rescan); the only upper bound is 'closed within 1 s of the cancel'",
        ],
        "level_text": "Lean theorems over a small-step model of liveRequestGenerator with a logical clock, for every delegate `passes`, every rescan interval and every schedule (timing, cancel point, consumer speed, outcome of every racing select): C19_passes_whole_in_order (uncancelled output = pass 0 ++ ... ++ pass k-1 ++ prefix of pass k, the rest still held), C19_nothing_invented (after a cancel only a sublist of what was held trickles out, delivered output stays a prefix), C19_rescan_interval (call k+1 >= end of pass k + rescan), C19_passes_unbounded (every fair uncancelled infinite schedule requests more than any number of passes), C19_cancel_closes / C19_closed_is_final (rescan > 0: closed within 2*max(rest of pass, next pass)+3 own steps after the cancel, at most one more pass, and final), C19_failed_pass_parks (a failing call k: no further call, the goroutine blocked on the nil channel with no enabled step until the cancel, then closed in two steps), C19_arp_live (in the arp wiring every pass starts and is a C01 pass with fresh draws), C19_shape / C19_wiring (decided over the shape regenerated from request.go and arp.go). Tied to the code by running the real scan.NewLiveRequestGenerator over a scripted delegate (passes of length 0..200, slow passes, a failing call at any position, cancel after every n-th request / while blocked on the consumer / inside the rescan wait / after a failed call; rescan 20-40 ms) and replaying the observed call/close times through the model.",
        "level_note": "Trusted: Lean kernel; the channel/select/timer semantics of the model (validated differentially, not proved); sxfacts for the loop shape and wiring. Observation recorded, not raised as a violation: after a pass that fails to start the generator parks until cancellation — no crash, no busy loop, but also no further pass (the arp wiring cannot produce a failing later pass: C19_arp_live).",
    },
    "C13": {
        "modules": ["SxVerif.Props.C13"],
        "components": ["gen", "engine", "pipeline", "arpcache", "iface", "e2eapp", "e2eerr"],
        "trusted_base": [
            "modelled, not verified: bufio.Scanner line splitting (64 KiB limit) and the easyjson decoder of IPPort as a line classifier (badJson | tooLong | entry(ip?, port)); net.ParseIP as an abstract outcome; cidranger as list membership",
        ],
        "assumptions": ["one error per *reading* of the list: the address x ports mode re-reads the list once per port (see DESIGN.md C13)",
                        "error-stream theorems (C13_error_stream_*): the engine run is not cancelled and has terminated with the error stream drained (packet side) / reached `done` (generic side); the receiver reports receiver errors (RcvErrsOK); the ARP-cache stage's own noMAC errors (good entries without a MAC, C11) are set aside"],
        "level_text": "Lean theorems C13_pairs/C13_addrs (generator output = per-line expectation of the lines handled, for every list of lines), C13_filter_stage/C13_cache_stage/C13_errors_survive (optional stages are per-request and pass errors through untouched, for every request list), C13_pipeline_* (the composition the commands build), and at the engines' error streams C13_error_stream_pairs / _addrs (C13 o C07 over Compose.pipeReqs: for every list of lines, stage stack, link mode, filler, draw family, worker count N >= 1, failure pattern and every terminated uncancelled interleaving, the request-error records consumed from the merged error stream carry exactly the causes of the bad entries handled, one each, and the frames handed to the writer are exactly those Fill built for the requests without error, whose targets are targets of good entries) and C13_error_stream_generic (C13 o C08 over Compose.engReqs: no Scan call is ever made for a request that carries an error; at `done` the errors sent carry exactly the bad entries' causes, one each; logged = sent once the drain returned). Tied to the code by running the real generators, the real --exclude parser and the real ARP-cache stage on generated target files (gen component), with the Spec reference evaluated on the observed requests.",
        "level_note": "Trusted: Lean kernel; the line classifier abstraction of easyjson/bufio (validated by the harness writing real JSONL text for every class, incl. textual variants); channel plumbing is M-conc's concern (a stage is its list function).",
    },
    "C01": {
        "modules": ["SxVerif.Props.C01"],
        "components": ["gen", "iter", "e2e", "e2ebig", "live", "e2elive"],
        "search": search_c01,
        "trusted_base": [
            "modelled, not verified: generators as the list they send before closing (channel plumbing is M-conc, C07/C08); cidranger as list membership; net.ParseIP / easyjson / bufio as a line classifier; os.Stdin through the buffering opener as a constant file",
            "chunk loop of startPortScanEngine tied by sxfacts (loop header, body statements and the empty-ranges branch are matched textually; any other shape is a translator problem that breaks Props/C01.translator_clean)",
        ],
        "assumptions": ["'puts on the wire' is a theorem (C01_wire_port_scan / C01_wire_ip_scan / C01_scan_targets = C01 o C05 o C07 and C01 o C08 over the embeddings of Model/Compose.lean); its remaining hypotheses: the engine run is not cancelled and comes to its end (all goroutines returned or `done` closed; progress is C07_progress_full / C12, fairness is the runtime's)",
                        "hv4: the denoted, non-excluded targets are IPv4 addresses (a theorem for subnet sources, C01_wire_subnet_ipv4; for a target file a condition on its content: a non-IPv4 line becomes a Fill error, not a probe)",
                        "hmac: on an Ethernet link the IP probes (tcp/udp/icmp) pass through the ARP-cache stage; a target with neither a cache entry nor a gateway MAC becomes a noMAC error request, which is not a probe (frames = probes of the stream; = denoted minus excluded when a gateway MAC is known or the link is a VPN)",
                        "LinkOK / FillerOK / RndOK: 4-byte source address and 6-byte source MAC from the scan range (C17), option values in the ranges the flag parsers enforce (C18), math/rand draws in the regenerated ranges (C05_draws); 'handed to the writer' = 'on the wire' for the writes that did not fail (C01_wire_no_write_failure)",
                        "a regular file yields the same content on every open"],
        "level_text": "Lean theorems C01_port_scan / C01_generic / C01_ip_scan / C01_chunks: for every valid specification (any subnet /0../32, any valid port-range list with any number of chunks, pairs file, address file x ranges incl. stdin), every exclusion list, every ARP cache and every family of random draws, the engine runs of one pass request exactly the denoted (address, port) multiset minus exclusions (List.Perm), built on C04's permutation theorem. At the wire: C01_wire_port_scan (tcp/udp) and C01_wire_ip_scan (icmp/arp) compose this with C05 and C07 over the embedding Compose.pipeReqs (error request -> error request, probe -> ok request whose frame is the model filler's output, refused probe -> fill error): for every link mode, filler, draw family, worker count N >= 1, writer failure pattern and every interleaving of every engine run of the pass that is not cancelled and has ended, the (destination address, destination port) pairs read with the independent RFC readers of Spec/Fill off the byte strings handed to WritePacketData are, as a multiset and with every frame readable, the probes of the pass = the denoted multiset minus exclusions (hypotheses hv4, hmac listed under assumptions). C01_scan_targets composes C01_generic with C08_scan_once / C08_complete over Compose.engReqs: for every worker count, oracle and schedule without Ctrl-C the targets handed to Scan are at every moment a sub-multiset of, and at `done` exactly, the denoted multiset minus exclusions. chunkSize and the empty-ranges branch are regenerated from root.go each run. The generator models are tied to the code by running the real newIPPortGenerator compositions and whole ScanMethods (down to frames) on generated specifications.",
        "level_note": "Trusted: Lean kernel + Mathlib (via C04); sxfacts for the loop shape; correspondence of hand-written generator models validated by sxdiff gen (differential, multiset level for randomised orders).",
    },
    "C02": {
        "modules": ["SxVerif.Props.C02"],
        "components": ["netparse", "gen", "parse", "e2e", "e2eapp", "e2erefuse", "fill", "e2efill"],
        "trusted_base": [
            "modelled, not verified: net.ParseCIDR / netip.ParseAddr for colon-free input (go1.23 parseIPv4Fields, dtoi) as Model/Net.lean; IPv6 parsing is not modelled at all (refused up front by the colon test)",
            "cidranger PCTrie as list membership after To4 normalisation",
        ],
        "assumptions": ["every textual IPv6 form contains ':' (RFC 4291 text representation)"],
        "level_text": "Lean theorems: C02_ipv6_refused (any string with a colon is refused), C02_parse_exact (an accepted target is a 4-byte network equal to what the string denotes by an independent decimal/split reader), round trips for all 2^32 hosts x 33 prefixes, C02_no_panic (the address generator neither fails nor reaches its FillBytes panic on any accepted target), C02_confined_* (every probe of every engine run, for ANY target-file content, goes to a source address that is not excluded, on a requested port) and C02_exclusion_exact (the filter's membership test is exactly block membership). Tied to the code by the real ip.ParseIPNet on grammar-generated strings and the real generators + real --exclude parser + cidranger.",
        "level_note": "Trusted: Lean kernel + Mathlib (via C04); the stdlib model for colon-free strings is validated differentially on every run, not proved.",
    },
    "C06": {
        "modules": ["SxVerif.Props.C06"],
        "components": ["proc", "e2ereply", "e2e", "engine"],
        "trusted_base": [
            "modelled, not verified: gopacket layers.{Ethernet,IPv4,TCP,ICMPv4,ARP}.DecodeFromBytes, NextLayerType, LayerPayload and the DecodingLayerParser loop with IgnoreUnsupported and panicToError (Model/Frame.lean), incl. uint8 wrap-around in the ARP decoder and the slice-capacity = length assumption for captured frames",
            "macs.ValidMACPrefixMap (vendor lookup) is opaque",
        ],
        "assumptions": ["a received frame is delivered as a slice whose capacity equals its length (as the harness does; AF_PACKET v3 blocks may be laxer, which can only turn a recovered panic into an error-free decode of bytes of the same ring block)"],
        "level_text": "Lean theorems C06_step / C06_history / C06_terminates: for every byte string, every prior contents of the reused decoder structs and every sequence of frames, the three processors never reach a panic, emit at most one record per frame, and emit it only if the frame itself contains the flat, offset-defined header chain of Spec/Frame.lean (version 4, IHL/lengths consistent, well-delimited options, unfragmented; ARP 1/0x0800/6/4) with every record field read from that frame. capture_source_safe / vlan_tagged_skipped (regenerated facts): the capture source serialises reads with Close, answers EOF once closed and hands out copies, and skips frames the kernel delivered with a VLAN tag beside them. Tied to the code by histories of structurally generated and malformed frames through the real ScanMethod.ProcessPacketData, and end to end (components e2ereply, e2e) by injecting crafted, nested, VLAN-tagged and badly-timed replies on the wire of the real binary in a network namespace.",
        "level_note": "Trusted: Lean kernel; the gopacket decoder model is validated differentially (1.5k histories quick / 25k thorough), not proved.",
    },
    "C05": {
        "modules": ["SxVerif.Props.C05"],
        "components": ["fill", "iface", "parse", "pipeline", "e2efill", "gen", "arpcache"],
        "trusted_base": [
            "modelled, not verified: gopacket layers.{Ethernet,IPv4,TCP,UDP,ICMPv4,ARP}.SerializeTo, gopacket.Payload, SerializeLayers order, checksum / tcpipChecksum / pseudoheaderChecksum, Ethernet padding to 60 bytes, net.IP.To4 (Model/Fill.lean); validated byte for byte against the real fillers on every run, not proved",
            "math/rand draws are parameters of the model; their ranges are regenerated from the four Fill bodies by sxfacts (Generated/Fill.lean, theorem C05_draws); rand.Intn(n) returns a value in [0, n)",
            "TCP flag table (CLI name -> filler option -> PacketFiller field -> layers.TCP field) regenerated by sxfacts (Generated/Flags.lean); the bit each layers.TCP field sets is modelled (tcpFieldBit)",
        ],
        "assumptions": [
            "request well-formedness (Spec.ReqOK / ArpReqOK): 4-byte or IPv4-mapped source and destination address (C02 for targets, C17 for the source), 16-bit port, and 6-byte MACs unless VPN mode; requests outside it are refused with an error (C05_refused_*), except that ARP copies a source address of any length as it is (C17 guarantees 4 bytes)",
            "payload <= 65507 bytes (IPv4 maximum): beyond it gopacket truncates the IP total length and the UDP length mod 2^16 without an error; such a frame exceeds every link MTU and is refused by the packet socket",
            "--ttl/--ipproto/--type/--code are uint8 flags and --iplen a uint16 flag (pflag Uint8Var/Uint16Var), --ipflags < 8 by C05_cli_ipflags over C18_ipflags_exact",
            "a UDP checksum that computes to 0 is transmitted as 0 (gopacket does not substitute 0xffff as RFC 768 asks); the RFC 1071 sum still verifies, a receiver reads 0 as 'no checksum'",
        ],
        "level_text": "Lean theorems C05_tcp / C05_udp / C05_icmp / C05_arp: for every well-formed request, all 2^9 TCP flag sets, every TTL / IP flags / protocol / type / code, every payload byte string up to the IPv4 maximum (induction-free RFC 1071 argument over the byte list, odd lengths included), every value of the random draws and both link modes, the frame read back by an independent RFC 791/793/768/792/826 offset reader carries exactly the requested MACs, addresses, port, flags, TTL, IP flags, type/code and payload; IPv4 header checksum and TCP/UDP (pseudo-header) / ICMP checksums verify; total length, IHL, data offset, UDP length, Ethernet padding are consistent, and --iplen / --ipproto appear verbatim with every other field unchanged (UDP length included, D14 fixed); IP id in 1..65535, source port in 32768..60999 with the draw ranges regenerated from the source (C05_draws). C05_vpn_same_datagram*: the VPN frame is the Ethernet frame minus header and padding. C05_refused_*: non-IPv4 addresses / bad MACs give an error, never a frame. CLI side: C05_cli_tcp_flags / C05_tcp_cli (the flag set the command's filler gets from the accepted --flags names, through the regenerated option table, is the set the names denote and is what the header carries), C05_subcommand_flags (tcp syn/fin/null/xmas give SYN / FIN / none / FIN+PSH+URG, over the option lists regenerated from command/tcp_*.go), C05_cli_ipflags (parsed --ipflags fit the field) composed with C18's parser theorems. Tied to the code by running the real Fill of all four fillers (built through the commands' own option wiring) into a dirty buffer and comparing every byte with the model, exhaustively over 2^9 flag sets x 2 link modes, a corner grid of payload lengths x option extremes, the IPv4 maximum payload, and a search of millions of frames of one seeded random stream for ids/ports at or beyond the ends of their ranges; the parse component drives flag names through the real filler (ptcpflags).",
        "level_note": "Trusted: Lean kernel; the gopacket serializer model is validated differentially on every run (byte-exact), not proved; sxfacts for the draw ranges and the flag table.",
    },
    "C11": {
        "modules": ["SxVerif.Props.C11"],
        "components": ["arpcache", "proc", "gen", "iface", "e2earp"],
        "trusted_base": [
            "modelled, not verified: net.IP.String / HardwareAddr.String for 4/6-byte values, net.ParseIP for colon-free text and the ::ffff:a.b.c.d spelling (go1.23 parseIPv4Fields), net.ParseMAC (all three textual forms), bufio.Scanner line splitting (lines below 64 KiB), easyjson's jlexer for arp.ScanResult as the RFC 8259 reader of Spec/Json plus the decoder loop (string-typed ip/mac/vendor, null skipped, unknown keys skipped, repeated key overwrites) — Model/ArpCache.lean; validated on every run through the real ARP processor, encoder, FillCache and cache request generator",
            "other IPv6 text in a cache file and 8/20-byte MACs are outside the model (never printed by the ARP scan); jlexer's leniency on malformed JSON (e.g. trailing commas) is not modelled: the harness's malformed lines are non-objects and truncated objects",
            "cache writers regenerated from the tree by sxfacts (Generated/ArpCacheFacts.lean); cacheReqGenerator model shared with C13 (Model/Gen.lean)",
        ],
        "assumptions": ["sync.RWMutex meets its contract (concurrent Gets of an unchanging map return the stored value)",
                        "the vendor table lookup returns some string (any bytes allowed)"],
        "level_text": "Lean theorems C11_ip_roundtrip / C11_mac_roundtrip (dotted-quad and MAC rendering parse back for all 2^32 / 2^48 values, by structure of the digit rendering), C11_line_loads (the line printed for any ARP reply, with any vendor string, is accepted by the loader and yields exactly {printed address -> printed MAC}; built on C14's ARP-line theorem), C11_printed_line_loads (C11 o C06: for every byte string and every prior decoder state, a record emitted by the ARP processor model comes from a frame that itself holds the 1/0x0800/6/4 Ethernet->ARP chain, renders to a line, and fillCache loads that line as exactly {sender protocol address of that frame -> sender hardware address of that frame}), C11_load_in_order / C11_last_wins (either spelling), C11_unknown_fields_skipped, C11_stage_choice / C11_never_foreign_mac (own entry, else gateway, else error; error requests untouched) and C11_cache_immutable_during_scan over writer facts regenerated from the tree. Tied to the code by ARP replies through the real processor -> real MarshalJSON -> real FillCache -> real NewCacheRequestGenerator, and by random cache files with duplicates, ::ffff: spellings, extra/null/repeated fields and malformed addresses.",
        "level_note": "Trusted: Lean kernel; the stdlib parser/printer models and the jlexer abstraction are validated differentially, not proved; concurrency is reduced to immutability of the cache after option parsing (generated fact) plus the RWMutex contract; -race run not included.",
    },
    "C14": {
        "modules": ["SxVerif.Props.C14"],
        "components": ["json", "proc", "e2ejson"],
        "trusted_base": [
            "modelled, not verified: easyjson v0.7.7 jwriter.Writer.String / Uint8 / Uint16 and go1.23 encoding/json appendString (escapeHTML on), strconv.AppendInt/AppendUint, utf8.DecodeRuneInString (Model/Json.lean; validated byte-for-byte on every run, incl. all 256 single bytes through both escapers)",
            "encoding/json's reflection walk (struct tags, omitempty, nil map/slice/pointer = null, Marshaler types such as time.Time, []byte = base64, float64 formatting) is NOT modelled: the harness computes the value tree it walks (goVal in harness/cmd/sxdiff/json.go, floatEncoder copied verbatim) and the model renders that tree (sorting Go maps); the theorems cover every well-formed tree",
            "JSONResultWriter.Write / LogResults call structure regenerated from command/log by sxfacts (Generated/JsonWriter.lean)",
        ],
        "assumptions": ["fmt.Fprintf performs a single Write on its writer per call (fmt's documented buffering: the formatted text is handed to w.Write once)",
                        "strings inside server-supplied values (elastic maps, docker Info/Version) are valid UTF-8: they are produced by encoding/json's decoder, which replaces invalid bytes by U+FFFD (the harness feeds invalid bytes through the real decoder)",
                        "float64 literals written by encoding/json obey RFC 8259's number grammar (checked on every generated value: resultWf is part of the verdict)",
                        "MarshalJSON does not fail (no NaN/Inf or cyclic values: unreachable from a JSON decoder); the channel is read by one logger goroutine"],
        "level_text": "Lean theorems C14_string_easyjson / C14_string_encodingjson (the independent JSON reader undoes both string escapers on every byte string), C14_integer, C14_value (every value tree of any depth), C14_arp/_tcp/_icmp/_socks/_elastic/_docker (the line of each result type reads back as exactly the documented keys and field values, for all field strings and all trees), C14_any_bytes_partial (invalid UTF-8: still one complete object, value read back sanitised), C14_single_line, C14_writes_in_order / C14_output_lines (output = the lines in channel order, one write each), C14_uniq_* (de-duplication = first occurrences by ID: every ID once, at its first sighting, order kept) and C14_one_write_per_result over facts regenerated from command/log. Tied to the code by random hostile results of all 7 kinds through the real MarshalJSON and the real Logger/UniqueLogger (byte-for-byte and write-for-write), with the Spec reader evaluated on the real bytes.",
        "level_note": "Trusted: Lean kernel; the escaper / strconv models and the harness-side reflection walk are validated differentially on every run, not proved; invalid UTF-8 in flat fields is covered by the weaker _partial statement (sanitised value).",
    },
    "C09": {
        "modules": ["SxVerif.Props.C09"],
        "components": ["socks", "e2eapp"],
        "trusted_base": [
            "modelled, not verified: net.Dialer.DialContext (Timeout 0 = none), net.TCPConn Read/Write/SetReadDeadline/SetWriteDeadline/SetLinger/Close and the Linux semantics of close(2) under SO_LINGER (blocks for a positive linger time, resets at once for 0), encoding/binary.Read of a 2-byte struct = one io.ReadFull = the io.ReadAtLeast loop (go1.23 source), goroutine watchdog = the operation in flight ends when the context is cancelled (Model/Socks.lean); validated by running the real Scanner.Scan against scripted loopback servers and the real socksConn over a recording in-memory conn",
            "constants regenerated from pkg/scan/socks5/{socks5.go,message.go} by sxfacts (Generated/Socks.lean): NewMethodRequest arguments, operands of the decision, SetLinger argument, MethodReply layout",
            "write failures of the 3-byte greeting cannot be provoked through a real socket (the kernel buffers it); that path of Scan is covered by the model and by the in-memory conn only",
        ],
        "assumptions": [
            "h_deadline: every blocking operation returns by its deadline - a deadline set by SetReadDeadline/SetWriteDeadline/Dialer.Timeout fires at its instant (built into the model's readOp/writeOp/dialOp; kernel and netpoll latency is the measured scheduling slack, 250 ms in the harness)",
            "io.Reader contract of a TCP connection: Read of a non-empty buffer never returns 0, nil (hypothesis noEmptyChunk of C09_reads_le_two / C09_time_bound)",
            "a connect timeout is set (0 < dialT): Go's Dialer.Timeout = 0 means no timeout (`sx socks -t 0`), and then the kernel's own SYN retry limit is the only bound",
            "steps that do not block (SetLinger, starting the watchdog, building the record) take no time in the model",
        ],
        "level_text": "Lean theorems over ALL server scripts (dial outcome x write outcome x any finite sequence of read events: any bytes in any chunking with any delays, EOF, reset, silence x peer acknowledging our FIN or not x any cancellation instant) and all timeout settings: C09_decision (record for the probed target iff connected, greeting sent and the first two reply bytes, as bytes with arrival instants, are 05 00), C09_record, C09_otherwise (nil,nil iff two other bytes were seen; error iff the reply was not seen), C09_greeting / C09_method_request (the request is 05 01 00; WriteTo for every method list), C09_reads_le_two, C09_time_bound (elapsed <= connect timeout + 3 data timeouts), C09_cancel_prompt (a cancelled probe is over by the cancellation instant, no deadline hypothesis), C09_cancel_late, C09_blocking_close_breaks_bound (why SetLinger must not be positive). Constants incl. the SetLinger argument are regenerated from the source each run. Tied to the code by the real Scanner.Scan against scripted loopback TCP servers (all first/second reply bytes, thorough: all 65536 replies; splits, drip feed, late bytes, extra bytes, floods, close/reset/stall at every step, full accept queue, cancellation before/during dial and during either read, peer turning unreachable in a private network namespace) with outcome, greeting seen by the server and wall time compared with the model, and by the real socksConn/WriteTo/ReadFrom over a recording in-memory conn (call-by-call trace).",
        "level_note": "Trusted: Lean kernel; the net/kernel model is validated differentially, not proved; the time theorems are theorems of the timed model under h_deadline (wall-clock behaviour is measured with 250 ms slack, not proved).",
    },
    "C03": {
        "modules": ["SxVerif.Props.C03"],
        "components": ["bpf", "proc", "recv", "e2ereply"],
        "trusted_base": [
            "modelled, not verified: libpcap's filter compiler + the BPF interpreter, as the denotation Model/Bpf.lean gives to exactly the expressions tcp.BPFFilter / tcp.SYNACKBPFFilter / icmp.BPFFilter / arp.BPFFilter can produce, on DLT_EN10MB and DLT_IPV4 (three-valued: an out-of-range load rejects; IPv6 branches of `tcp` and `src portrange`; fragment test on the offset only; /0 drops the dead address load; swapped port bounds). Validated on every run by compiling the REAL filter strings with the real libpcap for the link type sx opens and executing the program in golang.org/x/net/bpf's VM on the same frames; the harness hands the real processor the first snap-length bytes of each frame (1518 / 64, the value the program returns) as the ring would",
            "modelled, not verified: gopacket decoders and DecodingLayerParser loop (Model/Frame.lean, shared with C06), validated by component proc and again inside component bpf",
            "modelled, not verified: the Linux receive path in front of a packet socket (Model/Wiring.kernelRx: an outer 802.1Q/802.1ad tag is removed before the socket filter runs and travels beside the frame; tagged frames shorter than 20 bytes are dropped), the socket filter's return value as capture length, the TPACKET_V3 ring and gopacket's afpacket reader (AncillaryVLAN). Validated on every run by component e2ereply: the REAL sx binary in a private network namespace (veth pair; tun device for vpn mode), frames put on the wire while it scans, its JSON records compared with the model and judged by the Spec",
            "wiring table (per command: filter function, processor constructor, scan-type constant, packet filter, flag printer, vpn flag on socket and processor, engine) and the facts about startPacketScanEngine / afpacket.Source regenerated by sxfacts (harness/cmd/sxfacts/wiring.go) from command/*.go, pkg/scan/*/, pkg/packet/afpacket on every run; the harness builds its real processors and real filter strings from the same regenerated rows",
        ],
        "assumptions": [
            "the frame is read while the engine runs ('arrives before the scan exits' is C16's clause)",
            "RangeOK: the target subnet is a network address without host bits and prefix <= 32 (what net.ParseCIDR returns, C02), port ranges have lo <= hi <= 65535 (C18; the port generator refuses lo > hi)",
            "the kernel delivers to the socket exactly the frames the installed program accepts, each once, after its VLAN untagging (kernelRx); frames that arrive between socket creation and SetBPFFilter of an engine run are outside the theorems (e2ereply injects only after the first probe of the run is on the wire)",
            "capture length (C03_snaplen_full / C03_snaplen_history): the processor is handed exactly the first min(length, n) bytes of an accepted frame, n = the maxPacketLength the row's filter function returns (regenerated: 1518, arp 64); the frame is not offload-wrapped (Spec.Reply.offloadWrap: IPv4 total length 0 AND 65536 or more bytes behind the link header, whose datagram length Spec/Frame.lean reads modulo 65536) -- false of every frame an interface with MTU < 65522 can deliver; C03_snaplen_captured needs no such hypothesis and says the record is that of the captured bytes",
            "spec decisions of DESIGN.md C03 (a)-(d): NS is not one of 'the flags SYN+ACK'; the SYN-scan record prints no flag letters; an IPv4 TLV option of length 2 is not well-formed (gopacket refuses it); trailing link-layer padding is allowed",
        ],
        "level_text": "Lean theorems C03_exact / C03_iff / C03_property_form / C03_history / C03_chunks / C03_filters_compile / C03_wire (frame as it is on the wire -> kernel VLAN untagging -> filter -> cut -> ReadPacketData tag check -> processor = replyRecord of the wire frame; dropsVlanTagged regenerated) / C03_snaplen_captured / C03_snaplen_full / C03_snaplen_history (filter on the whole frame, processor on the first maxPacketLength bytes -- regenerated snapLens, snaplen_facts -- for frames of ANY length: jumbo, total length beyond the capture, padded ARP) over the wiring table regenerated from command/*.go on every run (wiring_compatible, wiring_complete, engine_facts are decided by the kernel on the regenerated data): for every packet-scan command row, with and without --vpn, every valid range (any subnet or none, any list of port ranges, hence every chunk of startPortScanEngine), every prior contents of the processor's reused decoder structs and every byte string on the wire, the installed BPF filter followed by the processor puts on the result channel exactly Spec.Reply.replyRecord of that frame: the record made of the frame's own source address, source port and flag letters / ICMP type, code, TTL / sender MAC if the frame is a well-formed unfragmented frame of the scanned protocol (flat offset-defined header chain of Spec/Frame.lean) whose source lies in the target subnet, whose source port lies in one of the ranges being scanned, whose TCP byte 13 is exactly 0x12 for the SYN scan and whose ICMP type is not 8 -- and nothing for any other byte string; at most one record per frame; for whole captures frame by frame independently of history. Proof: both directions of decoder <-> flat header chain (C06 gives record => chain; the converse forward-decoding lemmas are new), filter denotation collapsed to byte conditions on frames with a chain, netmask arithmetic (a AND mask = net <=> equal prefixes). Tied to the code by the translator (wiring) and by component bpf: real filter strings (render, byte for byte), real libpcap + BPF VM and real processors on frames aimed at the range, one-field-off variants, truncations at every header boundary, IPv6 / VLAN / fragments and all malformed families, with the Spec verdict evaluated on the observed outcome; and end to end by component e2ereply: each of the 8 commands as the real binary in a network namespace (Ethernet veth and tun/vpn mode, one port list of > chunkSize ranges = several engine runs, each with its own filter), structured frames injected while it scans, the multiset of JSON records on stdout = model = Spec.",
        "level_note": "Trusted: Lean kernel; sxfacts reads the wiring faithfully (cross-checked: the harness runs the rows it reports); libpcap/BPF and gopacket semantics are models validated differentially on every run (quick: 450 ranges x 8-14 frames + 300 render cases + 1.5k processor histories), not proved; kernel delivery is an assumption; truncation to the capture length is proved harmless (Proofs/Snap*.lean: the filters load nothing beyond byte 88, the header chains and IPv4 option check depend on the first 134 / 42 bytes only).",
    },
    "C15": {
        "modules": ["SxVerif.Props.C15"],
        "components": ["limiter", "parse", "e2erate", "e2eapp"],
        "trusted_base": [
            "modelled, not verified: go.uber.org/ratelimit v0.2.0 limiter_atomic.go (newAtomicBased, Take) as Model/Limiter.lean — one state update per Take as a function of the loaded state and the clock reading of the successful CAS iteration; time.Time/time.Duration as unbounded integers (ns since Go's zero time)",
            "Mathlib v4.33.0 (Finset.Icc cardinality, min'/max') for the order-free corollary C15_any_set only — checked by the same kernel",
            "wrapper bodies, constructor literals, the two wiring sites, the per-command plumbing and the go.mod version are regenerated from the tree by sxfacts (Generated/Limiter.lean); SxVerif.Limiter.wrapperEvents/wiringOK say what that data means",
        ],
        "assumptions": [
            "clock.Sleep(d) returns no earlier than d after it was called (the theorems bound the release times Take returns; a probe leaves after its release time only if Sleep really sleeps)",
            "every clock reading lies after Go's zero time.Time 0001-01-01T00:00:00Z (hypothesis ClockOK; the library marks 'no request yet' by the zero time)",
            "no int64 overflow of time.Duration: readings within +-146 years of each other and 10*W/N < 2^63 ns",
            "concurrent Takes are linearised by the compare-and-swap on the state pointer (validated: every concurrent run of the real limiter is checked to have an interleaving the sequential model reproduces exactly)",
            "wire time of a probe = its release time + dispatch latency eps >= 0 (C15_wire); for a single sender goroutine no assumption on eps is needed (C15_sequential, one unit weaker)",
            "parseRateLimit exactness (N, W denote what --rate says; W >= 0, 0 <= N < 2^31) is C18's theorem C18_rate_exact",
        ],
        "level_text": "Lean theorems C15_rate (for all N >= 1, W >= 0, ALL clock sequences after Go's zero time, monotone or not, all i and k >= 1: release(i+k-1) - release(i) >= (k-1-10)*floor(W/N); potential-function proof, no bound on lengths), C15_rate_slack (any burst allowance), C15_any_set (order-free: any k distinct probes span >= (k-1-10)*floor(W/N)), C15_held (never released before asking; Sleep argument = release - now), C15_wire (wire times with tolerance eps), C15_sequential (single sender, no eps, (k-2-10)), C15_spec_verdict (the executable Spec predicate is true of every finite model run), C15_new (rate 0 panics, never reached), C15_charged_once (for every call sequence on a wrapper each sent item is charged exactly once before it is handed on, reads never), and over facts regenerated from the source on every run C15_wrapper_shape / C15_wiring / C15_plumbing (method bodies are exactly Take-then-delegate, ReadPacketData not overridden, limiter installed iff rateCount > 0 with ratelimit.New(rateCount, Per(rateWindow)) and no slack option at both sites, every packet command passes rateCount/rateWindow on, library version v0.2.0). Tied to the code by running the REAL ratelimit limiter under scripted clocks (exact equality of release times and Sleep arguments with the model, incl. readings around the zero time, the andres-erbsen mock clock as a sequential sender and concurrent Takes with linearisation check), the REAL wrappers around a counting limiter and recording delegate, and the REAL newScanEngine wiring in real time (sequential bound on Scan start times).",
        "level_note": "Trusted: Lean kernel (+ Mathlib for C15_any_set); the limiter model is validated differentially on every run, not proved from the Go source; Sleep semantics, dispatch latency eps and int64 range are runtime assumptions; the packet wiring site (startPacketScanEngine needs an AF_PACKET socket) is tied by generated facts only, the application wiring site also dynamically; the order-free clause of the harness verdict (release times sorted) is justified by C15_any_set on paper, not by a list-level theorem. Observed library quirk (harmless direction): after a failed CAS iteration that wanted to sleep, Take may pass the stale interval to Sleep although the final iteration needs none (sleeps longer than needed, never shorter).",
    },
    "C10": {
        "modules": ["SxVerif.Props.C10"],
        "components": ["httpprobe", "e2eapp"],
        "trusted_base": [
            "modelled, not verified: net/http client + transport (connection errors, header/body stalls, redirects, 204/304 bodies), crypto/tls, encoding/json (Decoder.Decode reads one value, null into map/struct is a no-op, one byte of look-ahead after literals and numbers, Token at end of body, Unmarshal of a whole body) and the moby client (Ping HEAD->GET fallback, API-version negotiation, checkResponseErr, ensureReaderClosed, ServerVersion) behind the outcome abstraction of Model/HttpProbe.lean: per request an exchange = chain of hops (refused | protocol mismatch | close | RST | non-HTTP bytes | stalled / partial headers | response(status, delay, body class, id, ending)), body class in {object, {}, object+ws, object+trailing data, ill-typed object, null, null+tail, array, scalar, truncated, garbage, empty}, ending in {eof, stall, endless}",
            "call structure, deadlines, record literals, URLs and HTTP client settings of elastic.go / docker.go regenerated by sxfacts (Generated/HttpProbe.lean) and compared with Model/HttpProbe.Assumed by Props/C10.C10_wiring",
            "JSON parsing is not re-proved: the body classifier is validated against encoding/json by serving several textual variants of every class",
        ],
        "assumptions": [
            "deadline hypothesis (h_deadline of C10_*_time_partial): context / net/http / TLS / kernel end a request at most eps after its context deadline; the timed model makes it concrete as 'a stalled step ends exactly at the deadline'; measured on every run with slack 400 ms (a duration over the bound is re-measured alone, at most twice, before it is reported)",
            "Spec readings (judgements): 'a body that parses as a JSON object' = the WHOLE body is one JSON text whose value is an object (null, trailing data after the object and a body that never ends are not); elastic: status code not part of the statement; docker: 'API call succeeded' = status 200..399 and the object fits the Info schema; 'it answered' = the probed target's own answer, not that of an endpoint it redirects to; the secondary value shown is absent or an object the target itself sent",
            "docker: one deadline per probe (as the code and DESIGN.md say), the negotiation ping comes out of the same budget",
        ],
        "level_text": "Lean theorems C10_elastic / C10_docker (the Spec predicate - decision, record fields, duration bound - holds of the model for every endpoint behaviour on every request, every status, delay, timeout and redirect chain), C10_*_reported_iff, C10_*_record (scheme, host:port, info are the target's; secondary value never another endpoint's), C10_*_secondary_irrelevant, C10_*_redirect_irrelevant, C10_*_time_partial (duration bound for ANY client behaviour under the explicit deadline hypothesis) and C10_wiring over facts regenerated from elastic.go / docker.go on every run. Tied to the code by running the real elastic.Scanner / docker.Scanner against scripted loopback HTTP and HTTPS endpoints (body classes x endings x statuses x connection failures x delays x redirects), durations measured.",
        "level_note": "Trusted: Lean kernel; net/http, TLS, encoding/json and the moby client are modelled behind the outcome abstraction and validated differentially (1.1k cases quick / 7.5k thorough), not proved; the time bound is a theorem of the timed model / of any client meeting the deadline hypothesis.",
    },
    "C18": {
        "modules": ["SxVerif.Props.C18"],
        "components": ["parse", "e2erate", "e2efill", "e2eapp", "e2e"],
        "trusted_base": [
            "modelled, not verified: strconv.ParseUint(.,10,16) / ParseInt(.,10,32), strings.Split/TrimSpace/ToLower, bufio.Scanner line splitting with the 64 KiB limit, strconv.Unquote on the quoted payload (Model/Parse.lean); time.ParseDuration is a parameter `dur` of the rate theorems (the harness passes the real function's answer)",
            "flag tables regenerated from command/config.go and command/tcp.go by sxfacts (Generated/Flags.lean)",
        ],
        "assumptions": ["time.ParseDuration is exact on what it accepts (parameter of the rate theorems)"],
        "level_text": "Lean theorems C18_total_* (no parser reaches a panic on any string), C18_ports_exact / C18_rate_exact / C18_ipflags_exact / C18_tcpflags_exact / C18_ports_file / C18_exclude_file (whatever is accepted is exactly what an independent reader says the string denotes; bounds <= 65535) and the round trips C18_ports_roundtrip / C18_range_roundtrip / C18_rate_roundtrip / C18_payload_roundtrip / C18_payload_plain / C18_*flags_roundtrip (every canonical rendering parses back), for all strings and all values, over flag tables regenerated from the source on every run. Tied to the code by the real parsers on grammar-derived and mutated strings, incl. all 2^9 TCP and 2^3 IP flag subsets through the real filler.",
        "level_note": "Trusted: Lean kernel; the strconv/strings/bufio models are validated differentially on every run, not proved; time.ParseDuration is a parameter.",
    },
    "C17": {
        "modules": ["SxVerif.Props.C17"],
        "components": ["iface", "e2efill"],
        "trusted_base": [
            "modelled, not verified: net.Interfaces / Interface.Addrs / net.InterfaceByName / InterfaceByIndex and netlink.RouteList(nil, FAMILY_V4) (main table) as the snapshot lists of Model/Iface.lean; net.IP.To4, IP.Mask, CIDRMask and IPNet.Contains on IPv4 entries as byte lists (Model/Iface.lean), validated by running the real code in private network namespaces",
            "the harness reads the snapshot with the same two sources the code uses (Go runtime + vishvananda/netlink); that they report the kernel state faithfully is assumed (snapshot taken before and after the real code ran, case kept only if unchanged)",
            "the arp command's `SrcMAC == nil -> errSrcMAC` rule sits in a cobra closure: tied by running the real sx binary (go build of the repo) in the namespace and classifying its stderr",
            "frames: that a filler puts Range.SrcIP / SrcMAC into the frame is C05 (ReqOK.src4 is clause (v) here)",
        ],
        "assumptions": [
            "hostWF: an IPv4 address entry of the snapshot carries 4 bytes (what Interface.Addrs returns)",
            "optsWF: the parsed target is a 4-byte address (C02_parse_exact)",
            "routesResolve (C17_choice, C17_arp, clauses i, ii, v; not iii, iv): every default route of the main table names an interface of the snapshot. `unreachable default` / multipath routes do not; for them the harness still evaluates the Spec on the real outcome (the scan must fail if the lowest-metric default route has no interface), the theorem does not cover them",
            "the snapshot does not change between the calls of one option-parsing run",
        ],
        "level_text": "Lean theorems over Model/Iface.lean, for every host snapshot (interface, address and route lists of any length) and every flag combination: C17_choice / C17_arp (the option code fails exactly when the Spec sees no usable interface or IPv4 source, else returns the Spec's interface, source address, MAC and vpn mode; arp additionally refuses without MAC), C17_i_attached, C17_ii_iface, C17_ii_default (explicit first-match / lowest-metric statements), C17_iii_overrides and C17_iv_vpn (no hypothesis on the snapshot), C17_v_source / C17_v_fails (4-byte source that is the user's or an IPv4 address of the chosen interface of this host, error otherwise), C17_attached_is_prefix_match (the byte-wise Contains test = the first prefix-length bits agree) and C17_local / C17_default / C17_gateway for the pkg/ip functions. Tied to the code by building generated hosts (veth, bridge, ifb, tap, MAC-less tun; several addresses incl. IPv6-only and v4-mapped, overlapping subnets, 0-4 default routes with equal / huge metrics and preferred sources, unreachable, other tables) in private network namespaces (unshare -n) and running the real parseRawOptions + ipScanCmdOpts.parseOptions, getScanRange, the pkg/ip functions and the real sx arp binary there; the Spec is evaluated on every observed outcome.",
        "level_note": "Trusted: Lean kernel; the snapshot abstraction of the Go runtime / netlink (differentially validated in namespaces, not proved); fails closed when `unshare -n` is unavailable (component exits 3 -> correspondence violation).",
    },
}

# e2eapp: the real `sx socks | elastic | docker` binary against scripted servers in a private network namespace
# (harness/cmd/sxdiff/e2eapp.go, Spec/AppRun.lean) serves five properties; what it adds to each level text:
_E2EAPP = {
    "C08": " End to end (e2eapp): the real commands with the real loggers against farms of scripted targets (ok / negative / refused / tarpit / garbage / SYN dropped; http and https; subnet, address-file and pairs-file modes; --exclude; default and larger exit delay; 250-500 failed probes within a second): the JSON records on stdout are the detecting targets once each and the error records on stderr are one per failed probe.",
    "C09": " End to end (e2eapp): `sx socks -t T` (T given, or the default shown by --help) against a SYN-dropping address and a tarpit: the process ends within 4*T + exit delay + slack; records carry the probed address and port.",
    "C10": " End to end (e2eapp): `sx elastic|docker` over http and https (self-signed) against scripted servers: records carry the probed scheme, address and port; with -t T given or left at the default shown by --help a target that never answers holds the run for at most T + exit delay + slack.",
    "C15": " End to end (e2eapp): `--rate N/W` on the real socks / elastic / docker commands in all three target modes (subnet x ports, address file x ports, pairs file without ports), 1 and several workers: sorted first-connection times at the listeners obey (k-2-10)*floor(W/N) - 50 ms on every window (weaker than C15_sequential for one worker and than C15_wire + C15_any_set for several).",
    "C18": " End to end (e2eapp): the rate written on the command line (`N/s`, `N/500ms`, `N/2s`; --rate and -r) is the rate observed at the listeners of real socks / elastic / docker runs.",
}
for _pid, _txt in _E2EAPP.items():
    PROPS[_pid]["level_text"] += _txt
PROPS["C08"]["assumptions"] = PROPS["C08"]["assumptions"] + [
    "e2eapp demands printed records only at the default exit delay or larger (the property's own clause), with a handful of records per run"]

# additions of rounds 4-6 of seeded changes (see DESIGN.md I.7): what else each check runs now
_LATER = {
    "C01": " Also: component live (the real live generator chain, a pass longer than the rescan period), crowd cases of gen (/20../21 through runtime.NumCPU() packet workers of every scan method) and the race pass (gen, live re-run from a -race build of harness + real code); application runs of e2e with -w 1 / -w 2; capture_source_* theorems (the afpacket lock protocol as a transition system: no read touches an unmapped ring for any number of receivers and Close calls).",
    "C02": " Also: e2erefuse (the real binary, 12 command forms x non-IPv4 target strings x with/without --file / --exclude / --iface / ARP cache: refused iff the model's parseIPNet says so, nothing sent), fill and e2efill (the destination bytes of the frame on the wire, Ethernet and tun), list + subnet argument + exclusions in e2e.",
    "C03": " Also: every third e2ereply run lists its addresses in a --file next to the subnet; SYN scans run under background noise from before the process starts (RST/ACK/FIN segments of the scanned hosts, SYN+ACKs of hosts that are not scanned); capture_filter_applied_to_every_frame (the attached program is run on every frame read: D30).",
    "C05": " Also: gen and arpcache (the destination MAC a request gets from the cache, 4- and 16-byte address forms), pipeline (the frame as the socket receives it).",
    "C06": " Also: engine (the result hand-off with a slow consumer, > 3 x capacity), race pass (proc, engine), reply-flood runs of e2e from a race-enabled build of sx, capture_source_* and capture_filter_applied_to_every_frame theorems.",
    "C07": " Also: C07_steps_bounded / C07_uncancelled_run_ends (Proofs/ConcPacketTerm: a potential every step other than cancel strictly decreases, in every state — every execution of the packet pipeline, under any schedule, has at most 22*|requests| + 4*|receiver errors| + 4*N + 13 such steps; an uncancelled execution that cannot be extended is Terminated, so with C07_final_full everything has been written); e2eerr (packet scan with an ARP cache that knows some hosts and no gateway: frames and 'no destination MAC' records counted at the process boundary, also with a lagging stderr reader), a run with more than 5 s per packet in e2eslow, errno-valued write failures in pipeline, error_records_written_through (regenerated facts about the error sink), e2eapp, race pass (pipeline, gen).",
    "C08": " Also: plain_one_line + tag jplain of component json (the plain-text records of arp / tcp / icmp / socks results, byte for byte through the real logger); bad lines between the good ones of every pairs file, 24-32 thousand bad lines (errflood), results and error records into one stream (2>&1: every line one whole record), a stderr reader that lags, error_records_written_through, race pass (engine).",
    "C09": " Also: a /21 with six slow servers among refused neighbours (records name those servers), 1000 filtered hosts with -w 1000, runs under the smallest `ulimit -n` the process starts with, race pass (socks).",
    "C10": " Also: a third of the scripted servers compress when asked (Accept-Encoding), runs under the smallest `ulimit -n`.",
    "C11": " Also: e2earp feeds the ARP scan's stdout to `sx tcp syn` as -a <file>, on a pipe, as `< file` and as `-a -`; e2earpkill (the scan ended by SIGKILL / SIGTERM while printing: stdout still loads and holds answers given); race pass (arpcache, proc, gen).",
    "C12": " Also: C12_packet_steps_bounded (packet pipeline: at most 22*|requests| + 4*|receiver errors| + 4*N + 13 steps in all, cancelled anywhere or never; potential function, no fairness); C12_return_exists / C12_full / C12_quiescent_returned (a returning continuation of return-path steps only, no longer than the rank, exists from every cancelled reachable state; a cancelled state without an enabled return-path step has returned); blocking_ops_accounted (inventory of EVERY channel operation / Take / Sleep / Wait / Lock / go statement of the tree, regenerated with go/types, equal to the hand-classified table of Spec/Blocking.lean), rate_limited_probe_interruptible (D28), stdin_wait_only_in_read (D29), capture_source_* (lock protocol); e2esigint with slow rates (1/m, 10/h), target lists on a stdin / named pipe that stays open; race pass (cancel, pipeline).",
    "C13": " Also: e2eapp (bad lines in pairs files, errflood) and e2eerr at the process boundary; iface; trailing-data lines in gen; error_records_written_through.",
    "C14": " Also: juniqstall (a writer that stalls while hosts are sighted again), race pass (json, proc).",
    "C16": " Also: appdelay (stdout = /dev/full, text mode: the run still lasts its exit delay), e2eapp.",
    "C17": " Also: e2efill on the tun device (udp/icmp/tcp framing follows the interface), e2elivesrc (--srcip / --srcmac hold in every pass of a live scan), --srcip values that are addresses of other local interfaces.",
    "C18": " Also: e2e with the port list split between -p and --ports-file incl. nested ranges; files of several read buffers.",
    "C19": " Also: e2elive (the real `sx arp --live` over 4-6 passes, all CPUs / one CPU, --exclude, --rate, answering hosts: every pass a permutation of the addresses, gaps >= the rescan time, passes until SIGINT); pipeline (a write failure of any errno does not end the sender) and gen crowd cases + race pass (each pass probes every address once with all packet workers running).",
}
for _pid, _txt in _LATER.items():
    PROPS[_pid]["level_text"] += _txt

