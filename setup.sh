#!/bin/sh
# Offline build of the whole framework from files on disk (run once after a fresh restore).
set -e
cd "$(dirname "$0")"
export GOFLAGS=-mod=mod GOPROXY=off GOSUMDB=off GOTOOLCHAIN=local CGO_ENABLED=1
mkdir -p harness/bin evidence replays .work
cp /repo/go.sum harness/go.sum
(cd harness && go build -o bin/sxfacts ./cmd/sxfacts && bin/sxfacts /repo ../lean/SxVerif/Generated facts.json \
  && go build -tags verif -o bin/sxdiff ./cmd/sxdiff)
(cd lean && lake build SxVerif sxdriver)
echo "setup done"
